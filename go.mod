module verif

go 1.23
