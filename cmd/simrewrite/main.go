// simrewrite instruments a scratch copy of the repository for deterministic
// simulation: import swaps to the shim packages and AST rewrites of `go`,
// channel operations, select, range-over-channel and range-over-map.
//
// usage: simrewrite -dir <module root> [-skip dir,dir]
//
// Anything it does not understand is a hard error (exit 2): never a silent
// pass.
package main

import (
	"bytes"
	"flag"
	"fmt"
	"go/ast"
	"go/build"
	"go/format"
	"go/importer"
	"go/parser"
	"go/token"
	"go/types"
	"os"
	"path/filepath"
	"reflect"
	"sort"
	"strconv"
	"strings"
)

var swaps = map[string][2]string{
	"sync":         {"verifsim/simsync", "sync"},
	"sync/atomic":  {"verifsim/simatomic", "atomic"},
	"time":         {"verifsim/simtime", "time"},
	"runtime":      {"verifsim/simruntime", "runtime"},
	"context":      {"verifsim/simctx", "context"},
	"math/rand":    {"verifsim/simrand", "rand"},
	"math/rand/v2": {"verifsim/simrandv2", "rand"},
}

const rtName = "simrt__"

func fatal(f string, a ...any) {
	fmt.Fprintf(os.Stderr, "simrewrite: "+f+"\n", a...)
	os.Exit(2)
}

func main() {
	dir := flag.String("dir", "", "module root of the scratch copy")
	skip := flag.String("skip", "run,benchmarks,.git,.github", "directories to skip")
	flag.Parse()
	if *dir == "" {
		fatal("-dir required")
	}
	skipSet := map[string]bool{}
	for _, s := range strings.Split(*skip, ",") {
		skipSet[s] = true
	}
	var pkgDirs []string
	err := filepath.Walk(*dir, func(p string, fi os.FileInfo, err error) error {
		if err != nil {
			return err
		}
		if fi.IsDir() {
			rel, _ := filepath.Rel(*dir, p)
			if skipSet[rel] || skipSet[fi.Name()] || strings.HasPrefix(fi.Name(), "zz_verif") {
				return filepath.SkipDir
			}
			pkgDirs = append(pkgDirs, p)
		}
		return nil
	})
	if err != nil {
		fatal("%v", err)
	}
	if err := os.Chdir(*dir); err != nil {
		fatal("%v", err)
	}
	stats := map[string]int{}
	for _, d := range pkgDirs {
		rewritePackage(d, stats)
	}
	keys := make([]string, 0, len(stats))
	for k := range stats {
		keys = append(keys, k)
	}
	sort.Strings(keys)
	for _, k := range keys {
		fmt.Printf("simrewrite: %-16s %d\n", k, stats[k])
	}
}

type rewriter struct {
	fset  *token.FileSet
	info  *types.Info
	file  *ast.File
	fname string
	used  bool // simrt referenced
	n     int
	stats map[string]int
	gen   map[ast.Node]bool
}

func rewritePackage(dir string, stats map[string]int) {
	ctx := build.Default
	ents, err := os.ReadDir(dir)
	if err != nil {
		fatal("%v", err)
	}
	fset := token.NewFileSet()
	var files []*ast.File
	var names []string
	for _, e := range ents {
		n := e.Name()
		if e.IsDir() || !strings.HasSuffix(n, ".go") || strings.HasSuffix(n, "_test.go") || strings.HasPrefix(n, "zz_verif") {
			continue
		}
		ok, err := ctx.MatchFile(dir, n)
		if err != nil {
			fatal("%s/%s: %v", dir, n, err)
		}
		if !ok {
			continue
		}
		f, err := parser.ParseFile(fset, filepath.Join(dir, n), nil, parser.ParseComments|parser.SkipObjectResolution)
		if err != nil {
			fatal("parse: %v", err)
		}
		files = append(files, f)
		names = append(names, filepath.Join(dir, n))
	}
	if len(files) == 0 {
		return
	}
	info := &types.Info{
		Types: map[ast.Expr]types.TypeAndValue{},
		Uses:  map[*ast.Ident]types.Object{},
		Defs:  map[*ast.Ident]types.Object{},
	}
	conf := types.Config{Importer: importer.ForCompiler(fset, "source", nil), Error: func(err error) {
		fatal("type-check %s: %v", dir, err)
	}}
	if _, err := conf.Check(dir, fset, files, info); err != nil {
		fatal("type-check %s: %v", dir, err)
	}
	for i, f := range files {
		rw := &rewriter{fset: fset, info: info, file: f, fname: filepath.Base(names[i]), stats: stats, gen: map[ast.Node]bool{}}
		rw.run()
		var buf bytes.Buffer
		if err := format.Node(&buf, fset, f); err != nil {
			fatal("print %s: %v", names[i], err)
		}
		if err := os.WriteFile(names[i], buf.Bytes(), 0o644); err != nil {
			fatal("%v", err)
		}
	}
}

func (rw *rewriter) run() {
	f := rw.file
	// keep only build constraints / directives; other comments would be
	// misplaced by the printer once nodes without positions are inserted
	var keep []*ast.CommentGroup
	for _, cg := range f.Comments {
		var list []*ast.Comment
		for _, c := range cg.List {
			if cg.End() < f.Package || strings.HasPrefix(c.Text, "//go:") {
				list = append(list, c)
			}
		}
		if len(list) > 0 {
			keep = append(keep, &ast.CommentGroup{List: list})
		}
	}
	f.Comments = keep
	f.Doc = nil
	for _, d := range f.Decls {
		switch x := d.(type) {
		case *ast.FuncDecl:
			x.Doc = filterDoc(x.Doc)
		case *ast.GenDecl:
			x.Doc = filterDoc(x.Doc)
		}
	}

	// import swaps
	for _, im := range f.Imports {
		p, _ := strconv.Unquote(im.Path.Value)
		if sw, ok := swaps[p]; ok {
			if im.Name != nil && (im.Name.Name == "." || im.Name.Name == "_") {
				if im.Name.Name == "." {
					fatal("%s: dot import of %s not supported", rw.fname, p)
				}
				continue
			}
			im.Path.Value = strconv.Quote(sw[0])
			if im.Name == nil {
				im.Name = ast.NewIdent(sw[1])
			}
			rw.stats["import:"+p]++
		}
	}

	rw.rec(reflect.ValueOf(f))

	// verify nothing slipped through
	ast.Inspect(f, func(n ast.Node) bool {
		switch x := n.(type) {
		case *ast.GoStmt, *ast.SendStmt, *ast.SelectStmt:
			fatal("%s: unrewritten %T at %v", rw.fname, n, rw.fset.Position(n.Pos()))
		case *ast.UnaryExpr:
			if x.Op == token.ARROW {
				fatal("%s: unrewritten receive at %v", rw.fname, rw.fset.Position(n.Pos()))
			}
		}
		return true
	})

	if rw.used {
		spec := &ast.ImportSpec{Name: ast.NewIdent(rtName), Path: &ast.BasicLit{Kind: token.STRING, Value: strconv.Quote("verifsim/simrt")}}
		decl := &ast.GenDecl{Tok: token.IMPORT, Specs: []ast.Spec{spec}}
		i := 0
		for i < len(f.Decls) {
			if g, ok := f.Decls[i].(*ast.GenDecl); ok && g.Tok == token.IMPORT {
				i++
				continue
			}
			break
		}
		f.Decls = append(f.Decls[:i], append([]ast.Decl{decl}, f.Decls[i:]...)...)
	}
}

func filterDoc(cg *ast.CommentGroup) *ast.CommentGroup {
	if cg == nil {
		return nil
	}
	var list []*ast.Comment
	for _, c := range cg.List {
		if strings.HasPrefix(c.Text, "//go:") {
			list = append(list, c)
		}
	}
	if len(list) == 0 {
		return nil
	}
	return &ast.CommentGroup{List: list}
}

var (
	exprType = reflect.TypeOf((*ast.Expr)(nil)).Elem()
	stmtType = reflect.TypeOf((*ast.Stmt)(nil)).Elem()
)

// rec walks the AST reflectively; every slot of static type ast.Expr or
// ast.Stmt gets a pre-order and a post-order chance to be replaced.
func (rw *rewriter) rec(v reflect.Value) {
	switch v.Kind() {
	case reflect.Interface:
		if v.IsNil() {
			return
		}
		isSlot := v.CanSet() && (v.Type() == exprType || v.Type() == stmtType)
		if isSlot {
			rw.pre(v)
		}
		rw.rec(v.Elem())
		if isSlot {
			rw.post(v)
		}
	case reflect.Ptr:
		if v.IsNil() {
			return
		}
		t := v.Type().Elem()
		if t.Kind() != reflect.Struct || t.PkgPath() != "go/ast" {
			return
		}
		switch t.Name() {
		case "Object", "Scope", "CommentGroup", "Comment":
			return
		}
		if n, ok := v.Interface().(ast.Node); ok {
			rw.preNode(n)
		}
		rw.rec(v.Elem())
	case reflect.Slice:
		for i := 0; i < v.Len(); i++ {
			rw.rec(v.Index(i))
		}
	case reflect.Struct:
		for i := 0; i < v.NumField(); i++ {
			rw.rec(v.Field(i))
		}
	}
}

func (rw *rewriter) rt(fn string) ast.Expr {
	rw.used = true
	return &ast.SelectorExpr{X: ast.NewIdent(rtName), Sel: ast.NewIdent(fn)}
}

func (rw *rewriter) call(fn string, args ...ast.Expr) *ast.CallExpr {
	return &ast.CallExpr{Fun: rw.rt(fn), Args: args}
}

func (rw *rewriter) tmp(prefix string) *ast.Ident {
	rw.n++
	return ast.NewIdent(fmt.Sprintf("%s%s%d", rtName, prefix, rw.n))
}

func isArrow(e ast.Expr) (*ast.UnaryExpr, bool) {
	for {
		p, ok := e.(*ast.ParenExpr)
		if !ok {
			break
		}
		e = p.X
	}
	u, ok := e.(*ast.UnaryExpr)
	return u, ok && u.Op == token.ARROW
}

// preNode: in-place fix-ups that must happen before children are visited.
func (rw *rewriter) preNode(n ast.Node) {
	switch x := n.(type) {
	case *ast.AssignStmt:
		if len(x.Lhs) == 2 && len(x.Rhs) == 1 {
			if u, ok := isArrow(x.Rhs[0]); ok {
				x.Rhs[0] = rw.call("Recv2", u.X)
				rw.stats["recv2"]++
			}
		}
	case *ast.ValueSpec:
		if len(x.Names) == 2 && len(x.Values) == 1 {
			if u, ok := isArrow(x.Values[0]); ok {
				x.Values[0] = rw.call("Recv2", u.X)
				rw.stats["recv2"]++
			}
		}
	}
}

func (rw *rewriter) pre(slot reflect.Value) {
	switch x := slot.Interface().(type) {
	case *ast.SelectStmt:
		slot.Set(reflect.ValueOf(rw.rewriteSelect(x)))
	case *ast.LabeledStmt:
		// a labelled range/select: rewrite the inner statement in place so the
		// label stays attached to a for/switch
		switch in := x.Stmt.(type) {
		case *ast.RangeStmt:
			if s := rw.rewriteRange(in, true); s != nil {
				x.Stmt = s
			}
		case *ast.SelectStmt:
			x.Stmt = rw.rewriteSelectLabeled(in)
		}
	case *ast.RangeStmt:
		if s := rw.rewriteRange(x, false); s != nil {
			slot.Set(reflect.ValueOf(s))
		}
	}
}

func (rw *rewriter) post(slot reflect.Value) {
	switch x := slot.Interface().(type) {
	case *ast.GoStmt:
		slot.Set(reflect.ValueOf(rw.rewriteGo(x)))
	case *ast.SendStmt:
		rw.stats["send"]++
		slot.Set(reflect.ValueOf(ast.Stmt(&ast.ExprStmt{X: rw.call("Send", x.Chan, x.Value)})))
	case *ast.UnaryExpr:
		if x.Op == token.ARROW {
			rw.stats["recv"]++
			slot.Set(reflect.ValueOf(ast.Expr(rw.call("Recv", x.X))))
		}
	case *ast.CallExpr:
		if id, ok := x.Fun.(*ast.Ident); ok && id.Name == "close" && len(x.Args) == 1 {
			if _, isBuiltin := rw.info.Uses[id].(*types.Builtin); isBuiltin {
				rw.stats["close"]++
				x.Fun = rw.rt("Close")
			}
		}
	}
}

// site names a go statement independently of line numbers:
// "<file>:<enclosing func>><callee>", e.g. "store.go:NewStore>maintenance".
func (rw *rewriter) site(g *ast.GoStmt) ast.Expr {
	p := g.Pos()
	pos := rw.fset.Position(p)
	encl := "?"
	for _, d := range rw.file.Decls {
		if fd, ok := d.(*ast.FuncDecl); ok && fd.Pos() <= p && p < fd.End() {
			encl = fd.Name.Name
		}
	}
	callee := "func"
	switch f := g.Call.Fun.(type) {
	case *ast.Ident:
		callee = f.Name
	case *ast.SelectorExpr:
		callee = f.Sel.Name
	}
	return &ast.BasicLit{Kind: token.STRING, Value: strconv.Quote(fmt.Sprintf("%s:%s>%s", filepath.Base(pos.Filename), encl, callee))}
}

func (rw *rewriter) rewriteGo(g *ast.GoStmt) ast.Stmt {
	rw.stats["go"]++
	site := rw.site(g)
	call := g.Call
	if fl, ok := call.Fun.(*ast.FuncLit); ok && len(call.Args) == 0 {
		if fl.Type.Results == nil || len(fl.Type.Results.List) == 0 {
			return &ast.ExprStmt{X: rw.call("Go", site, fl)}
		}
	}
	var pre []ast.Stmt
	for i, a := range call.Args {
		if tv, ok := rw.info.Types[a]; ok && tv.Value != nil {
			continue // constant: keep inline (untyped constants need their context)
		}
		if _, ok := a.(*ast.FuncLit); ok {
			continue
		}
		if call.Ellipsis.IsValid() && i == len(call.Args)-1 {
			// f(xs...) : hoisting keeps the slice value
		}
		t := rw.tmp("a")
		pre = append(pre, &ast.AssignStmt{Lhs: []ast.Expr{t}, Tok: token.DEFINE, Rhs: []ast.Expr{a}})
		call.Args[i] = ast.NewIdent(t.Name)
	}
	body := &ast.BlockStmt{List: []ast.Stmt{&ast.ExprStmt{X: call}}}
	fl := &ast.FuncLit{Type: &ast.FuncType{Params: &ast.FieldList{}}, Body: body}
	st := &ast.ExprStmt{X: rw.call("Go", site, fl)}
	if len(pre) == 0 {
		return st
	}
	return &ast.BlockStmt{List: append(pre, st)}
}

func (rw *rewriter) selectParts(s *ast.SelectStmt) (decls []ast.Stmt, sw *ast.SwitchStmt) {
	rw.stats["select"]++
	hasDefault := false
	var caseVars []ast.Expr
	var clauses []ast.Stmt
	idx := 0
	for _, cl := range s.Body.List {
		cc := cl.(*ast.CommClause)
		if cc.Comm == nil {
			hasDefault = true
			// Select returns -1 for default: the switch's own default clause (keeps
			// the statement "terminating" exactly when the select was)
			clauses = append(clauses, &ast.CaseClause{List: nil, Body: cc.Body})
			continue
		}
		cv := rw.tmp("c")
		var ctor ast.Expr
		var bind ast.Stmt
		switch c := cc.Comm.(type) {
		case *ast.SendStmt:
			ctor = rw.call("CaseSend", c.Chan, c.Value)
		case *ast.ExprStmt:
			u, ok := isArrow(c.X)
			if !ok {
				fatal("%s: unsupported select comm at %v", rw.fname, rw.fset.Position(c.Pos()))
			}
			ctor = rw.call("CaseRecv", u.X)
		case *ast.AssignStmt:
			if len(c.Rhs) != 1 {
				fatal("%s: unsupported select comm at %v", rw.fname, rw.fset.Position(c.Pos()))
			}
			u, ok := isArrow(c.Rhs[0])
			if !ok {
				fatal("%s: unsupported select comm at %v", rw.fname, rw.fset.Position(c.Pos()))
			}
			ctor = rw.call("CaseRecv", u.X)
			rhs := []ast.Expr{&ast.SelectorExpr{X: ast.NewIdent(cv.Name), Sel: ast.NewIdent("Val")}}
			if len(c.Lhs) == 2 {
				rhs = append(rhs, &ast.SelectorExpr{X: ast.NewIdent(cv.Name), Sel: ast.NewIdent("Ok")})
			}
			bind = &ast.AssignStmt{Lhs: c.Lhs, Tok: c.Tok, Rhs: rhs}
		default:
			fatal("%s: unsupported select comm %T", rw.fname, cc.Comm)
		}
		decls = append(decls, &ast.AssignStmt{Lhs: []ast.Expr{cv}, Tok: token.DEFINE, Rhs: []ast.Expr{ctor}})
		caseVars = append(caseVars, ast.NewIdent(cv.Name))
		body := cc.Body
		if bind != nil {
			body = append([]ast.Stmt{bind}, body...)
		}
		clauses = append(clauses, &ast.CaseClause{List: []ast.Expr{&ast.BasicLit{Kind: token.INT, Value: strconv.Itoa(idx)}}, Body: body})
		idx++
	}
	def := "false"
	if hasDefault {
		def = "true"
	} else {
		unreachable := &ast.ExprStmt{X: &ast.CallExpr{Fun: ast.NewIdent("panic"), Args: []ast.Expr{&ast.BasicLit{Kind: token.STRING, Value: strconv.Quote("simrt: select without default returned no case")}}}}
		clauses = append(clauses, &ast.CaseClause{List: nil, Body: []ast.Stmt{unreachable}})
	}
	args := append([]ast.Expr{ast.NewIdent(def)}, caseVars...)
	sw = &ast.SwitchStmt{Tag: rw.call("Select", args...), Body: &ast.BlockStmt{List: clauses}}
	return
}

func (rw *rewriter) rewriteSelect(s *ast.SelectStmt) ast.Stmt {
	decls, sw := rw.selectParts(s)
	return &ast.BlockStmt{List: append(decls, sw)}
}

// labelled select: `L: select {...}` -> the case objects cannot be declared
// in front of the label's statement without moving the label, so they are
// built inside the switch's init statement... which admits one simple
// statement only. Supported for selects with at most one communication.
func (rw *rewriter) rewriteSelectLabeled(s *ast.SelectStmt) ast.Stmt {
	decls, sw := rw.selectParts(s)
	if len(decls) > 1 {
		fatal("%s: labelled select with more than one communication at %v", rw.fname, rw.fset.Position(s.Pos()))
	}
	if len(decls) == 1 {
		sw.Init = decls[0]
	}
	return sw
}

func simpleExpr(e ast.Expr) bool {
	switch x := e.(type) {
	case *ast.Ident:
		return true
	case *ast.SelectorExpr:
		return simpleExpr(x.X)
	case *ast.ParenExpr:
		return simpleExpr(x.X)
	case *ast.StarExpr:
		return simpleExpr(x.X)
	}
	return false
}

func isBlank(e ast.Expr) bool {
	id, ok := e.(*ast.Ident)
	return e == nil || (ok && id.Name == "_")
}

// rewriteRange returns nil when the statement needs no rewriting.
func (rw *rewriter) rewriteRange(r *ast.RangeStmt, labeled bool) ast.Stmt {
	if rw.gen[r] {
		return nil
	}
	t := rw.info.TypeOf(r.X)
	if t == nil {
		fatal("%s: no type for range operand at %v", rw.fname, rw.fset.Position(r.Pos()))
	}
	u := t.Underlying()
	if tp, ok := t.(*types.TypeParam); ok {
		_ = tp
		fatal("%s: range over a type parameter at %v not supported", rw.fname, rw.fset.Position(r.Pos()))
	}
	switch u.(type) {
	case *types.Chan:
		rw.stats["range-chan"]++
		okv := rw.tmp("ok")
		var lhs0 ast.Expr = ast.NewIdent("_")
		if r.Key != nil {
			lhs0 = r.Key
		}
		var recv ast.Stmt
		var pre []ast.Stmt
		if r.Key == nil || r.Tok == token.DEFINE {
			recv = &ast.AssignStmt{Lhs: []ast.Expr{lhs0, okv}, Tok: token.DEFINE, Rhs: []ast.Expr{rw.call("Recv2", r.X)}}
		} else {
			pre = append(pre, &ast.DeclStmt{Decl: &ast.GenDecl{Tok: token.VAR, Specs: []ast.Spec{&ast.ValueSpec{Names: []*ast.Ident{ast.NewIdent(okv.Name)}, Type: ast.NewIdent("bool")}}}})
			recv = &ast.AssignStmt{Lhs: []ast.Expr{lhs0, ast.NewIdent(okv.Name)}, Tok: token.ASSIGN, Rhs: []ast.Expr{rw.call("Recv2", r.X)}}
		}
		brk := &ast.IfStmt{Cond: &ast.UnaryExpr{Op: token.NOT, X: ast.NewIdent(okv.Name)}, Body: &ast.BlockStmt{List: []ast.Stmt{&ast.BranchStmt{Tok: token.BREAK}}}}
		body := &ast.BlockStmt{List: append(append(pre, recv, brk), r.Body.List...)}
		return &ast.ForStmt{Body: body}
	case *types.Map:
		if isBlank(r.Key) && isBlank(r.Value) {
			return nil // only the number of iterations is observable
		}
		if r.Tok != token.DEFINE {
			fatal("%s: range over map with '=' at %v not supported", rw.fname, rw.fset.Position(r.Pos()))
		}
		rw.stats["range-map"]++
		var pre []ast.Stmt
		m := r.X
		if !simpleExpr(m) {
			if labeled {
				fatal("%s: labelled range over a non-trivial map expression at %v", rw.fname, rw.fset.Position(r.Pos()))
			}
			mv := rw.tmp("m")
			pre = append(pre, &ast.AssignStmt{Lhs: []ast.Expr{mv}, Tok: token.DEFINE, Rhs: []ast.Expr{m}})
			m = ast.NewIdent(mv.Name)
		}
		var key ast.Expr = r.Key
		if isBlank(key) {
			key = rw.tmp("k")
		}
		keyName := key.(*ast.Ident).Name
		okv := rw.tmp("ok")
		var val ast.Expr = ast.NewIdent("_")
		if !isBlank(r.Value) {
			val = r.Value
		}
		look := &ast.AssignStmt{Lhs: []ast.Expr{val, okv}, Tok: token.DEFINE, Rhs: []ast.Expr{&ast.IndexExpr{X: m, Index: ast.NewIdent(keyName)}}}
		cont := &ast.IfStmt{Cond: &ast.UnaryExpr{Op: token.NOT, X: ast.NewIdent(okv.Name)}, Body: &ast.BlockStmt{List: []ast.Stmt{&ast.BranchStmt{Tok: token.CONTINUE}}}}
		body := &ast.BlockStmt{List: append([]ast.Stmt{look, cont}, r.Body.List...)}
		var loop ast.Stmt
		defer func() { rw.gen[loop] = true }()
		loop = &ast.RangeStmt{Key: ast.NewIdent("_"), Value: ast.NewIdent(keyName), Tok: token.DEFINE, X: rw.call("MapOrder", cloneSimple(m)), Body: body}
		if len(pre) == 0 {
			return loop
		}
		return &ast.BlockStmt{List: append(pre, loop)}
	}
	return nil
}

func cloneSimple(e ast.Expr) ast.Expr {
	switch x := e.(type) {
	case *ast.Ident:
		return ast.NewIdent(x.Name)
	case *ast.SelectorExpr:
		return &ast.SelectorExpr{X: cloneSimple(x.X), Sel: ast.NewIdent(x.Sel.Name)}
	case *ast.ParenExpr:
		return &ast.ParenExpr{X: cloneSimple(x.X)}
	case *ast.StarExpr:
		return &ast.StarExpr{X: cloneSimple(x.X)}
	}
	return e
}
