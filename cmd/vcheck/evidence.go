package main

import (
	"encoding/json"
	"fmt"
	"os"
	"path/filepath"
	"sort"
	"time"
)

var realVsStub = map[string]any{
	"real_code": []string{"internal/store.go", "tlfu.go", "slru.go", "list.go", "sketch.go", "timerwheel.go", "buffer.go", "singleflight.go",
		"counter.go", "rbmutex.go (real algorithm over shimmed primitives)", "persistence.go", "entry.go", "policy_flag.go", "bf", "clock", "hasher (xxh3, go<1.24 variant)",
		"cache.go", "builder*.go", "encoding/gob", "zeebo/xxh3"},
	"simulator_owned": []string{"goroutine scheduling (one task at a time, seeded choice)", "mutex/rwmutex/waitgroup/channel blocking", "select choice",
		"clock, sleeps, tickers (discrete-event simulated time)", "xruntime.Fastrand / math/rand globals", "sync.Pool hit/miss/drop", "map iteration order", "GOMAXPROCS/NumCPU-derived sizes"},
	"stubs":         []string{"loader", "removal listener", "Cost function", "SecondaryCache (in-memory map with fault plan, not theine-nvm)", "io.Writer/io.Reader (simulated disk)"},
	"not_exercised": []string{"go>=1.24 maphash hasher", "!go1.22 Fastrand linkname variant"},
}

func writeEvidence(prop, tier string, seed uint64, tc tierCfg, a *agg, buildS, exploreS, wallS float64, violations int, knownSigs, newSigs []string, detChecked int) {
	level := "exploration"
	if prop == "C12" {
		level = "fault_enumeration"
	}
	var samples []any
	for _, o := range a.samples {
		sc := json.RawMessage(o.Scenario) // verbatim: seeds are 64-bit
		samples = append(samples, map[string]any{"seed": o.Seed, "index": o.Index, "family": o.Family, "steps": o.Steps, "switches": o.Switches,
			"sim_seconds": float64(o.SimNanos) / 1e9, "kernel_verdict": o.Kernel, "scenario": sc, "history": o.History, "extra": o.Extra})
	}
	if len(samples) == 0 {
		for sig, o := range a.firstBySig {
			sc := json.RawMessage(o.Scenario)
			samples = append(samples, map[string]any{"seed": o.Seed, "signature": sig, "scenario": sc, "history": o.History})
			if len(samples) >= 2 {
				break
			}
		}
	}
	if len(samples) == 0 {
		samples = append(samples, map[string]any{"note": "no sample captured"})
	}
	sigCounts := map[string]int64{}
	for k, v := range a.sigs {
		sigCounts[k] = v
	}
	cov := map[string]any{
		"evaluations":         a.evals,
		"distinct_nontrivial": len(a.ntHashes),
		"rule": "each evaluation is one seeded simulated execution (scenario generated from the seed, every scheduling decision, time increment and fault drawn from the same seed); " +
			"distinct = distinct kernel trace hash (hash over the sequence of (task, event kind) at every scheduling point); non-trivial = the run had at least one context switch between tasks and executed at least one recorded API call (for component sims: at least one property-relevant probe fired)",
		"samples":                    samples,
		"simulated_runs":             a.runs,
		"runs_per_hour":              int64(float64(a.runs) / exploreS * 3600),
		"seed_indices":               fmt.Sprintf("VERIF_SEED=%d, run indices 0..%d (index i -> seed derived by splitmix)", seed, a.runs-1),
		"scheduling_points":          a.steps,
		"context_switches":           a.switches,
		"distinct_trace_hashes":      len(a.hashes),
		"sim_time_total_s":           float64(a.simNanos) / 1e9,
		"sim_time_max_s":             float64(a.maxSim) / 1e9,
		"faults_fired":               a.faults,
		"probes":                     a.probes,
		"scenario_families":          a.families,
		"run_verdicts":               a.verdicts,
		"kernel_verdicts":            a.kernel,
		"violation_signatures":       sigCounts,
		"known_finding_signatures":   knownSigs,
		"new_violation_signatures":   newSigs,
		"determinism_selfcheck_runs": detChecked,
		"real_vs_stub":               realVsStub,
		"build":                      map[bool]string{false: "plain", true: "-race"}[tc.race],
		"workers":                    tc.workers,
		"build_s":                    buildS,
		"explore_s":                  exploreS,
		"notes":                      a.notes,
	}
	if prop == "C12" {
		cov["exhaustive"] = true
		cov["exhaustive_over"] = "for every generated stream: every truncation offset and every single-bit flip at every byte (plus byte overwrites 0x00/0xFF/random at every position, all segment drop/duplicate/adjacent-swap edits); sampled: stream shapes, multi-byte damage, writer-failure offsets"
		var streams, loads int64
		streams = a.runs
		loads = a.evals
		cov["streams"] = streams
		cov["fault_variants_loaded"] = loads
		cov["truncation_offsets"] = a.probes["c12.truncations"]
		cov["bit_flips"] = a.probes["c12.bit-flips"]
		cov["byte_overwrites"] = a.probes["c12.byte-overwrites"]
		cov["segment_edits"] = a.probes["c12.segment-edits"]
	}
	ev := map[string]any{
		"property_id": prop,
		"tier":        tier,
		"seed":        int64(seed),
		"level":       level,
		"coverage":    cov,
		"assumptions": []string{
			"the shim packages model sync/atomic/time/channel semantics faithfully (tested by kernel unit tests and by running the repository's own tests on the rewritten tree in pass-through mode)",
			"interleavings are explored at synchronisation operations (and single atomic operations where that yield class is on) under sequential consistency",
			"seeded search samples the schedule/fault space: a clean batch is evidence, not proof",
		},
		"wall_s":     wallS,
		"violations": violations,
		"written_at": time.Now().UTC().Format(time.RFC3339),
	}
	b, _ := json.MarshalIndent(ev, "", " ")
	if os.Getenv("VERIF_NOEVIDENCE") != "" {
		return // runs against a seeded change: the committed evidence describes the unchanged tree
	}
	os.MkdirAll(filepath.Join(verifDir, "evidence"), 0o755)
	if err := os.WriteFile(filepath.Join(verifDir, "evidence", prop+".json"), b, 0o644); err != nil {
		infra("writing evidence: %v", err)
	}
}

// ---------------- minimisation ----------------

type scen struct {
	raw map[string]json.RawMessage
}

func parseScen(b []byte) (*scen, error) {
	s := &scen{}
	return s, json.Unmarshal(b, &s.raw)
}

func (s *scen) clients() [][]json.RawMessage {
	var c [][]json.RawMessage
	json.Unmarshal(s.raw["clients"], &c)
	return c
}

func (s *scen) with(clients [][]json.RawMessage, seed uint64) []byte {
	m := map[string]json.RawMessage{}
	for k, v := range s.raw {
		m[k] = v
	}
	if clients == nil {
		clients = [][]json.RawMessage{}
	}
	for i := range clients {
		if clients[i] == nil {
			clients[i] = []json.RawMessage{}
		}
	}
	b, _ := json.Marshal(clients)
	m["clients"] = b
	m["seed"] = json.RawMessage(fmt.Sprint(seed))
	out, _ := json.Marshal(m)
	return out
}

// minimise shrinks the scenario while the same violation signature persists.
// Every candidate is one simulated run in a fresh worker process.
func minimise(bin, prop, tier string, o *Outcome, sig string) json.RawMessage {
	s, err := parseScen(o.Scenario)
	if err != nil {
		return o.Scenario
	}
	deadline := time.Now().Add(45 * time.Second)
	tries := 0
	tmp := filepath.Join(scratch, "min.json")
	curSeed := o.Seed
	test := func(clients [][]json.RawMessage) (bool, uint64) {
		for _, sd := range []uint64{curSeed, curSeed + 1, curSeed + 2, curSeed + 3, curSeed + 4, curSeed + 5} {
			if time.Now().After(deadline) || tries > 600 {
				return false, 0
			}
			tries++
			rf := map[string]any{"property": prop, "tier": tier, "signature": sig, "scenario": json.RawMessage(s.with(clients, sd))}
			b, _ := json.Marshal(rf)
			os.WriteFile(tmp, b, 0o644)
			ro, err := replayOnce(bin, prop, tmp)
			if err == nil && hasSig(ro, sig) {
				return true, sd
			}
		}
		return false, 0
	}
	cur := s.clients()
	// sanity: the unshrunk scenario must reproduce
	if ok, _ := test(cur); !ok {
		return o.Scenario
	}
	// 1. drop whole clients (keep their slot empty so client ids stay stable)
	for i := len(cur) - 1; i >= 0; i-- {
		if len(cur[i]) == 0 {
			continue
		}
		cand := cloneClients(cur)
		cand[i] = nil
		if ok, sd := test(cand); ok {
			cur, curSeed = cand, sd
		}
	}
	// 2. drop operations: chunks of halving size, then single operations
	for i := range cur {
		for chunk := len(cur[i]) / 2; chunk >= 1; chunk /= 2 {
			for at := len(cur[i]) - chunk; at >= 0; at -= chunk {
				if at+chunk > len(cur[i]) {
					continue
				}
				cand := cloneClients(cur)
				cand[i] = append(append([]json.RawMessage{}, cur[i][:at]...), cur[i][at+chunk:]...)
				if ok, sd := test(cand); ok {
					cur, curSeed = cand, sd
				}
			}
		}
	}
	// trailing empty clients can go
	for len(cur) > 0 && len(cur[len(cur)-1]) == 0 {
		cand := cur[:len(cur)-1]
		if ok, sd := test(cand); ok {
			cur, curSeed = cand, sd
		} else {
			break
		}
	}
	return json.RawMessage(s.with(cur, curSeed))
}

func cloneClients(c [][]json.RawMessage) [][]json.RawMessage {
	out := make([][]json.RawMessage, len(c))
	for i := range c {
		out[i] = append([]json.RawMessage{}, c[i]...)
	}
	return out
}

func sortedKeys(m map[string]int64) []string {
	var ks []string
	for k := range m {
		ks = append(ks, k)
	}
	sort.Strings(ks)
	return ks
}
