// vcheck is the orchestrator behind every quick_cmd / thorough_cmd:
//
//	vcheck <property> [--tier quick|thorough] [--replay file] [--budget seconds]
//
// It copies /repo's current working tree to a scratch directory, instruments
// it (simrewrite), builds the simulation worker, fans seeded runs out over the
// cores, classifies violations against /verif/known_findings.json, minimises
// and replays new ones in a fresh process, writes /verif/evidence/<id>.json
// and exits 0 (held), 1 (VIOLATION line printed) or 2 (infrastructure).
package main

import (
	"bufio"
	"bytes"
	"encoding/json"
	"flag"
	"fmt"
	"os"
	"os/exec"
	"path/filepath"
	"runtime"
	"sort"
	"strconv"
	"strings"
	"sync"
	"time"
)

const verifDir = "/verif"

type Violation struct {
	Sig    string `json:"sig"`
	Detail string `json:"detail"`
}

type Outcome struct {
	Seed       uint64          `json:"seed"`
	Index      int64           `json:"idx"`
	Prop       string          `json:"prop"`
	Family     string          `json:"family"`
	Verdict    string          `json:"verdict"`
	Kernel     string          `json:"kernel"`
	Violations []Violation     `json:"violations"`
	Hash       uint64          `json:"hash"`
	Steps      int64           `json:"steps"`
	Switches   int64           `json:"switches"`
	SimNanos   int64           `json:"simnanos"`
	Tasks      int             `json:"tasks"`
	Probes     map[string]int  `json:"probes"`
	Faults     map[string]int  `json:"faults"`
	Nontrivial bool            `json:"nontrivial"`
	Evals      int64           `json:"evals"`
	Note       string          `json:"note"`
	Scenario   json.RawMessage `json:"scenario"`
	History    []string        `json:"history"`
	Extra      map[string]any  `json:"extra"`
}

type Finding struct {
	Property  string `json:"property"`
	Status    string `json:"status"` // known | fixed
	Signature string `json:"signature"`
	What      string `json:"what"`
	Trigger   string `json:"trigger,omitempty"`
	Commit    string `json:"commit,omitempty"`
}

type tierCfg struct {
	budget  time.Duration // wall-clock for the exploration phase
	race    bool
	workers int
}

func budgetFor(prop, tier string) tierCfg {
	n := runtime.NumCPU()
	if n > 16 {
		n = 16
	}
	c := tierCfg{budget: 40 * time.Second, workers: n}
	if tier == "thorough" {
		c.budget = 12 * time.Minute
	}
	if prop == "C19" {
		c.race = true
		if tier == "quick" {
			c.budget = 60 * time.Second
		} else {
			c.budget = 20 * time.Minute
		}
	}
	if (prop == "C09" || prop == "C11" || prop == "C12") && tier == "quick" {
		c.budget = 90 * time.Second // long single runs (thousands of operations, fault enumeration): few runs per second
	}
	if v := os.Getenv("VERIF_BUDGET"); v != "" {
		if s, err := strconv.Atoi(v); err == nil {
			c.budget = time.Duration(s) * time.Second
		}
	}
	return c
}

func infra(f string, a ...any) {
	fmt.Fprintf(os.Stderr, "vcheck: INFRASTRUCTURE: "+f+"\n", a...)
	os.Exit(2)
}

var scratch string

func cleanup() {
	if scratch != "" && os.Getenv("VERIF_KEEP") == "" {
		os.RemoveAll(scratch)
	}
}

func goEnv() []string {
	env := os.Environ()
	env = append(env, "GOFLAGS=-mod=mod", "GOPROXY=off", "GOSUMDB=off", "GOTOOLCHAIN=local")
	return env
}

func build(race bool) string {
	var err error
	base := os.Getenv("VERIF_SCRATCH")
	if base == "" {
		base = os.TempDir()
	}
	scratch, err = os.MkdirTemp(base, "vcheck-")
	if err != nil {
		infra("scratch dir: %v", err)
	}
	args := []string{filepath.Join(verifDir, "scripts/mkscratch.sh"), scratch}
	bin := "zharness.bin"
	if race {
		args = append(args, "race")
		bin = "zharness.race"
	}
	// the rewriter is rebuilt from /verif sources if missing
	if _, err := os.Stat(filepath.Join(verifDir, "bin/simrewrite")); err != nil {
		c := exec.Command("go", "build", "-o", "bin/simrewrite", "./cmd/simrewrite")
		c.Dir = verifDir
		c.Env = goEnv()
		if out, err := c.CombinedOutput(); err != nil {
			infra("building simrewrite: %v\n%s", err, out)
		}
	}
	c := exec.Command("bash", args...)
	c.Env = goEnv()
	out, err := c.CombinedOutput()
	if err != nil {
		cleanup()
		infra("instrumenting/building the scratch copy failed (no verdict): %v\n%s", err, out)
	}
	return filepath.Join(scratch, bin)
}

type agg struct {
	mu         sync.Mutex
	runs       int64
	evals      int64
	steps      int64
	switches   int64
	simNanos   int64
	maxSim     int64
	verdicts   map[string]int64
	kernel     map[string]int64
	families   map[string]int64
	probes     map[string]int64
	faults     map[string]int64
	hashes     map[uint64]bool
	ntHashes   map[uint64]bool
	sigs       map[string]int64
	firstBySig map[string]*Outcome
	samples    []*Outcome
	hashByIdx  map[int64]uint64
	notes      map[string]int64
	stuck      int64 // runs with kernel verdict deadlock / no-progress and no violation raised
}

func newAgg() *agg {
	return &agg{verdicts: map[string]int64{}, kernel: map[string]int64{}, families: map[string]int64{}, probes: map[string]int64{},
		faults: map[string]int64{}, hashes: map[uint64]bool{}, ntHashes: map[uint64]bool{}, sigs: map[string]int64{},
		firstBySig: map[string]*Outcome{}, hashByIdx: map[int64]uint64{}, notes: map[string]int64{}}
}

func (a *agg) add(o *Outcome) {
	a.mu.Lock()
	defer a.mu.Unlock()
	a.runs++
	if o.Evals > 0 {
		a.evals += o.Evals
	} else {
		a.evals++
	}
	a.steps += o.Steps
	a.switches += o.Switches
	a.simNanos += o.SimNanos
	if o.SimNanos > a.maxSim {
		a.maxSim = o.SimNanos
	}
	a.verdicts[o.Verdict]++
	a.kernel[o.Kernel]++
	if (o.Kernel == "deadlock" || o.Kernel == "no-progress") && o.Verdict != "violation" {
		a.stuck++
	}
	a.families[o.Family]++
	for k, v := range o.Probes {
		a.probes[k] += int64(v)
	}
	for k, v := range o.Faults {
		a.faults[k] += int64(v)
	}
	a.hashes[o.Hash] = true
	if o.Nontrivial {
		a.ntHashes[o.Hash] = true
	}
	if o.Note != "" {
		a.notes[o.Note]++
	}
	a.hashByIdx[o.Index] = o.Hash
	for _, v := range o.Violations {
		a.sigs[v.Sig]++
		if f, ok := a.firstBySig[v.Sig]; !ok || o.Index < f.Index {
			a.firstBySig[v.Sig] = o
		}
	}
	if len(a.samples) < 3 && len(o.Scenario) > 0 && o.Verdict == "ok" {
		a.samples = append(a.samples, o)
	}
}

// runWorker runs one worker process over indices from, from+stride, ... and
// restarts it when it recycles itself; returns when the deadline passes.
func runWorker(bin, prop, tier string, seed uint64, from, stride int64, deadline time.Time, a *agg, maxRuns int64, race bool, procs int) error {
	next := from
	done := int64(0)
	for time.Now().Before(deadline) && (maxRuns == 0 || done < maxRuns) {
		left := time.Until(deadline)
		count := int64(1 << 40)
		if maxRuns > 0 {
			count = maxRuns - done
		}
		args := []string{"-prop", prop, "-tier", tier, "-seed", fmt.Sprint(seed), "-from", fmt.Sprint(next), "-stride", fmt.Sprint(stride),
			"-count", fmt.Sprint(count), "-budget", left.String(), "-procs", fmt.Sprint(procs)}
		cmd := exec.Command(bin, args...)
		cmd.Env = append(os.Environ(), "GOMAXPROCS=2", "GORACE=halt_on_error=1 exitcode=66")
		var stderr bytes.Buffer
		cmd.Stderr = &stderr
		stdout, err := cmd.StdoutPipe()
		if err != nil {
			return err
		}
		if err := cmd.Start(); err != nil {
			return err
		}
		killed := false
		killer := time.AfterFunc(left+90*time.Second, func() { killed = true; cmd.Process.Kill() })
		sc := bufio.NewScanner(stdout)
		sc.Buffer(make([]byte, 1<<20), 64<<20)
		n := int64(0)
		var badLine error
		for sc.Scan() {
			line := sc.Bytes()
			if len(line) == 0 || line[0] != '{' {
				continue
			}
			var o Outcome
			if err := json.Unmarshal(line, &o); err != nil {
				// a worker halted by the race detector may leave a truncated last line
				badLine = fmt.Errorf("bad worker output: %v: %.200s", err, line)
				continue
			}
			a.add(&o)
			n++
		}
		err = cmd.Wait()
		killer.Stop()
		es := stderr.String()
		if race && strings.Contains(es, "WARNING: DATA RACE") {
			// the detector halts the worker at the first report: the run in progress is the one after the last
			// outcome (a truncated last line is a run that had completed)
			if badLine != nil {
				n++
			}
			idx := next + n*stride
			sig, rep := raceSignature(es)
			o := &Outcome{Seed: 0, Index: idx, Prop: prop, Family: "race", Verdict: "violation", Kernel: "race", Nontrivial: true,
				Violations: []Violation{{Sig: sig, Detail: rep}}, History: strings.Split(rep, "\n")}
			a.add(o)
			done += n + 1
			next = idx + stride
			continue
		}
		if killed {
			// a run still in progress long after the budget was stopped by the watchdog: its (partial)
			// output is discarded, everything completed before counts
			a.mu.Lock()
			a.notes["worker-stopped-by-watchdog-after-budget"]++
			a.mu.Unlock()
			return nil
		}
		if badLine != nil {
			return badLine
		}
		if err != nil {
			return fmt.Errorf("worker failed (from=%d): %v\n%s", next, err, tail(es, 4000))
		}
		i := strings.LastIndex(es, "WORKER-DONE next=")
		if i < 0 {
			return fmt.Errorf("worker ended without a DONE line: %s", tail(es, 2000))
		}
		fmt.Sscanf(es[i:], "WORKER-DONE next=%d", &next)
		done += n
		if n == 0 {
			break
		}
	}
	return nil
}

var raceReports = make(chan string, 1024)

func tail(s string, n int) string {
	if len(s) > n {
		return s[len(s)-n:]
	}
	return s
}

func loadFindings() []Finding {
	b, err := os.ReadFile(filepath.Join(verifDir, "known_findings.json"))
	if err != nil {
		return nil
	}
	var f struct {
		Findings []Finding `json:"findings"`
	}
	if err := json.Unmarshal(b, &f); err != nil {
		infra("known_findings.json: %v", err)
	}
	return f.Findings
}

// sigMatch: '*' in a pattern matches any (possibly empty) run of characters.
func sigMatch(pattern, sig string) bool {
	parts := strings.Split(pattern, "*")
	if len(parts) == 1 {
		return pattern == sig
	}
	if !strings.HasPrefix(sig, parts[0]) {
		return false
	}
	rest := sig[len(parts[0]):]
	for i := 1; i < len(parts); i++ {
		p := parts[i]
		if i == len(parts)-1 {
			return strings.HasSuffix(rest, p)
		}
		j := strings.Index(rest, p)
		if j < 0 {
			return false
		}
		rest = rest[j+len(p):]
	}
	return true
}

// raceSignature condenses a race detector report into a signature: the first
// library frames (outside the simulator and the harness) of both accesses.
func raceSignature(report string) (string, string) {
	i := strings.Index(report, "WARNING: DATA RACE")
	if i < 0 {
		return "", ""
	}
	rep := report[i:]
	if j := strings.Index(rep[10:], "=================="); j > 0 {
		rep = rep[:j+10]
	}
	var tops []string
	for _, blk := range strings.Split(rep, "\n\n") {
		lines := strings.Split(blk, "\n")
		if len(lines) == 0 {
			continue
		}
		head := strings.TrimSpace(lines[0])
		if strings.HasPrefix(head, "WARNING") && len(lines) > 1 {
			head = strings.TrimSpace(lines[1])
			lines = lines[1:]
		}
		if !(strings.HasPrefix(head, "Read at") || strings.HasPrefix(head, "Write at") || strings.HasPrefix(head, "Previous") || strings.HasPrefix(head, "Atomic")) {
			continue
		}
		kind := strings.Fields(head)[0]
		if kind == "Previous" {
			kind = "prev-" + strings.ToLower(strings.Fields(head)[1])
		}
		fn := "?"
		for k := 1; k+1 < len(lines); k += 2 {
			f := strings.TrimSpace(lines[k])
			loc := strings.TrimSpace(lines[k+1])
			if strings.HasPrefix(f, "runtime.") || strings.HasPrefix(f, "verifsim/") || strings.HasPrefix(f, "main.") || strings.HasPrefix(f, "sync") || strings.Contains(loc, "/usr/lib/go") {
				continue
			}
			if p := strings.Index(f, "("); p > 0 && !strings.HasPrefix(f, "(") {
				// keep receiver/method, drop argument list
			}
			f = strings.TrimSuffix(f, "()")
			if p := strings.LastIndex(f, "/"); p >= 0 {
				f = f[p+1:]
			}
			// generic instantiation noise
			for strings.Contains(f, "[") && strings.Contains(f, "]") {
				a, b := strings.Index(f, "["), strings.LastIndex(f, "]")
				if a > b {
					break
				}
				f = f[:a] + f[b+1:]
			}
			file := loc
			if p := strings.LastIndex(file, "/"); p >= 0 {
				file = file[p+1:]
			}
			if p := strings.Index(file, ":"); p > 0 {
				file = file[:p]
			}
			fn = f + "@" + file
			break
		}
		_ = kind // which of the two accesses the detector happened to see first is schedule noise: not part of the signature
		tops = append(tops, fn)
		if len(tops) == 2 {
			break
		}
	}
	sort.Strings(tops)
	return "C19/race/" + strings.Join(tops, "|"), rep
}

func replayOnce(bin, prop string, file string) (*Outcome, error) {
	cmd := exec.Command(bin, "-prop", prop, "-replay", file)
	cmd.Env = append(os.Environ(), "GOMAXPROCS=2", "GORACE=halt_on_error=1 exitcode=66")
	var stderr bytes.Buffer
	cmd.Stderr = &stderr
	out, err := cmd.Output()
	if strings.Contains(stderr.String(), "WARNING: DATA RACE") {
		sig, rep := raceSignature(stderr.String())
		return &Outcome{Prop: prop, Verdict: "violation", Kernel: "race", Violations: []Violation{{Sig: sig, Detail: rep}}, History: strings.Split(rep, "\n")}, nil
	}
	if err != nil {
		return nil, fmt.Errorf("%v: %s", err, tail(stderr.String(), 2000))
	}
	var o Outcome
	for _, line := range bytes.Split(out, []byte("\n")) {
		if len(line) > 0 && line[0] == '{' {
			if err := json.Unmarshal(line, &o); err != nil {
				return nil, err
			}
			return &o, nil
		}
	}
	return nil, fmt.Errorf("no outcome from replay")
}

func hasSig(o *Outcome, sig string) bool {
	for _, v := range o.Violations {
		if v.Sig == sig {
			return true
		}
	}
	return false
}

func main() {
	if len(os.Args) < 2 {
		infra("usage: vcheck <property> [--tier quick|thorough] [--replay file]")
	}
	prop := os.Args[1]
	fs := flag.NewFlagSet("vcheck", flag.ExitOnError)
	tierF := fs.String("tier", os.Getenv("VERIF_TIER"), "quick|thorough")
	replay := fs.String("replay", "", "replay file")
	minim := fs.String("minimise", "", "minimise the scenario of this replay file (debug aid); writes <file>.min")
	fs.Parse(os.Args[2:])
	tier := *tierF
	if tier == "" {
		tier = "quick"
	}
	seed := uint64(1)
	if v := os.Getenv("VERIF_SEED"); v != "" {
		if s, err := strconv.ParseUint(v, 10, 64); err == nil {
			seed = s
		} else if s, err := strconv.ParseInt(v, 10, 64); err == nil {
			seed = uint64(s)
		}
	}
	tc := budgetFor(prop, tier)
	start := time.Now()
	bin := build(tc.race)
	defer cleanup()
	buildS := time.Since(start).Seconds()

	if *minim != "" {
		b, err := os.ReadFile(*minim)
		if err != nil {
			infra("%v", err)
		}
		var rf struct {
			Signature string          `json:"signature"`
			Scenario  json.RawMessage `json:"scenario"`
		}
		json.Unmarshal(b, &rf)
		var sd struct {
			Seed uint64 `json:"seed"`
		}
		json.Unmarshal(rf.Scenario, &sd)
		sc := minimise(bin, prop, tier, &Outcome{Seed: sd.Seed, Scenario: rf.Scenario}, rf.Signature)
		out, _ := json.MarshalIndent(map[string]any{"property": prop, "tier": tier, "signature": rf.Signature, "scenario": sc}, "", " ")
		os.WriteFile(*minim+".min", out, 0o644)
		ro, err := replayOnce(bin, prop, *minim+".min")
		if err == nil {
			for _, h := range ro.History {
				fmt.Println("  " + h)
			}
			fmt.Println(ro.Violations)
		}
		return
	}
	if *replay != "" {
		o, err := replayOnce(bin, prop, *replay)
		if err != nil {
			cleanup()
			infra("replay: %v", err)
		}
		var rf struct {
			Signature  string `json:"signature"`
			Replayable *bool  `json:"replayable"`
			RaceReport string `json:"race_report"`
		}
		b, _ := os.ReadFile(*replay)
		json.Unmarshal(b, &rf)
		if rf.Replayable != nil && !*rf.Replayable && !hasSig(o, rf.Signature) {
			fmt.Printf("recorded race-detector report (this run index did not repeat it in a fresh process; the detector's verdict depends on the history of the worker process):\n%s\n", rf.RaceReport)
			fmt.Printf("VIOLATION property=%s replay=%s\n", prop, *replay)
			cleanup()
			os.Exit(1)
		}
		for _, h := range o.History {
			fmt.Println("  " + h)
		}
		for _, v := range o.Violations {
			fmt.Printf("violation: %s\n  %s\n", v.Sig, v.Detail)
		}
		if hasSig(o, rf.Signature) || (rf.Signature == "" && len(o.Violations) > 0) {
			fmt.Printf("VIOLATION property=%s replay=%s\n", prop, *replay)
			cleanup()
			os.Exit(1)
		}
		fmt.Printf("replay of %s: signature %q not reproduced on the current tree (hash %d)\n", *replay, rf.Signature, o.Hash)
		return
	}

	a := newAgg()
	deadline := time.Now().Add(tc.budget)
	var wg sync.WaitGroup
	errs := make(chan error, tc.workers+1)
	for w := 0; w < tc.workers; w++ {
		wg.Add(1)
		go func(w int) {
			defer wg.Done()
			if err := runWorker(bin, prop, tier, seed, int64(w), int64(tc.workers), deadline, a, 0, tc.race, 2); err != nil {
				errs <- err
			}
		}(w)
	}
	wg.Wait()
	select {
	case err := <-errs:
		cleanup()
		infra("%v", err)
	default:
	}
	exploreS := time.Since(start).Seconds() - buildS
	if a.runs == 0 {
		cleanup()
		infra("no runs completed")
	}

	// determinism self-check: re-run a sample of indices in fresh processes
	detChecked, detBad := 0, 0
	{
		b := newAgg()
		n := int64(40)
		if err := runWorker(bin, prop, tier, seed, 0, 1, time.Now().Add(60*time.Second), b, n, tc.race, 1+int(seed%2)*15); err != nil {
			cleanup()
			infra("determinism re-run: %v", err)
		}
		for idx, h := range b.hashByIdx {
			if h0, ok := a.hashByIdx[idx]; ok && h0 != 0 && h != 0 { // hash 0: run cut short by a race report
				detChecked++
				if h0 != h {
					detBad++
				}
			}
		}
		if detBad > 0 {
			cleanup()
			infra("determinism self-check failed: %d of %d re-run seeds produced a different trace hash", detBad, detChecked)
		}
	}

	// classify violations
	findings := loadFindings()
	var newSigs, knownSigs []string
	knownSeen := map[int]int64{}
	for sig := range a.sigs {
		matched := false
		for i, f := range findings {
			if f.Status == "known" && f.Property == prop && sigMatch(f.Signature, sig) {
				matched = true
				knownSeen[i] += a.sigs[sig]
			}
		}
		if matched {
			knownSigs = append(knownSigs, sig)
		} else {
			newSigs = append(newSigs, sig)
		}
	}
	sort.Strings(newSigs)
	sort.Strings(knownSigs)

	var violLines []string
	unconfirmed := 0
	minimised := 0
	os.MkdirAll(filepath.Join(verifDir, "replays"), 0o755)
	for _, sig := range newSigs {
		o := a.firstBySig[sig]
		detail := ""
		for _, v := range o.Violations {
			if v.Sig == sig {
				detail = v.Detail
			}
		}
		rf := map[string]any{"property": prop, "tier": tier, "seed": o.Seed, "base_seed": seed, "index": o.Index, "signature": sig, "detail": detail,
			"hash": o.Hash, "build": map[bool]string{false: "plain", true: "race"}[tc.race], "trace": o.History}
		if len(o.Scenario) > 0 {
			if minimised < 4 {
				// (the first few signatures are minimised; a change that breaks a property in many
				// ways at once must not turn the check into an hour of shrinking)
				minimised++
				rf["scenario"] = minimise(bin, prop, tier, o, sig)
			} else {
				rf["scenario"] = o.Scenario
			}
		}
		name := fmt.Sprintf("%s-%d-%d-%s.json", prop, seed, o.Index, sanitize(sig))
		path := filepath.Join(verifDir, "replays", name)
		b, _ := json.MarshalIndent(rf, "", " ")
		os.WriteFile(path, b, 0o644)
		// schedule-level minimisation (records the scheduling choices of the failing run and
		// sets as many as possible to "keep running the current task"); rewrites the file
		if len(o.Scenario) > 0 && minimised <= 4 {
			mc := exec.Command(bin, "-prop", prop, "-minsched", path)
			mc.Env = append(os.Environ(), "GOMAXPROCS=2")
			mc.Run()
		}
		// fresh-process replay must reproduce the signature
		ro, err := replayOnce(bin, prop, path)
		if tc.race && (err != nil || !hasSig(ro, sig)) {
			// a worker halted by the detector can leave the last completed run's line cut off, which shifts
			// the attribution of the report by one run: try the neighbouring run indices of that worker
			for _, d := range []int64{-int64(tc.workers), int64(tc.workers)} {
				rf["index"] = o.Index + d
				b2, _ := json.MarshalIndent(rf, "", " ")
				os.WriteFile(path, b2, 0o644)
				if r2, e2 := replayOnce(bin, prop, path); e2 == nil && hasSig(r2, sig) {
					ro, err = r2, nil
					break
				}
			}
		}
		if (err != nil || !hasSig(ro, sig)) && tc.race && o.Kernel == "race" {
			// A report of the Go race detector that a fresh process does not repeat. The detector's
			// verdict depends on its shadow state (four cells per word, evicted at random, and the
			// history of the whole worker process), so unlike every other oracle here it is not a
			// function of the seed alone. Its reports have no false positives as long as the shims
			// model happens-before correctly (0 reports on the unchanged tree in every sweep), so
			// the report itself is kept as the evidence and the violation is raised; the file says
			// that it is a recording, not a replayable execution.
			rf["index"] = o.Index
			rf["replayable"] = false
			rf["race_report"] = detail
			rf["note"] = "race-detector report recorded in the main run; not reproduced by a fresh-process replay of this run index or its neighbours (DESIGN 7.8)"
			b2, _ := json.MarshalIndent(rf, "", " ")
			os.WriteFile(path, b2, 0o644)
			fmt.Printf("violation: %s\n  %s\n  runs with this signature: %d (recorded report; fresh-process replay did not repeat it)\n", sig, firstLines(detail, 12), a.sigs[sig])
			violLines = append(violLines, fmt.Sprintf("VIOLATION property=%s replay=%s", prop, path))
			continue
		}
		if err != nil || !hasSig(ro, sig) {
			unconfirmed++
			fmt.Fprintf(os.Stderr, "vcheck: violation %s (seed %d) did not reproduce on replay: %v\n", sig, o.Seed, err)
			continue
		}
		if cur, err := os.ReadFile(path); err == nil {
			var m map[string]any
			dec := json.NewDecoder(bytes.NewReader(cur))
			dec.UseNumber() // seeds are 64-bit: a float64 round trip would change them
			if dec.Decode(&m) == nil {
				m["trace"] = ro.History
				b, _ = json.MarshalIndent(m, "", " ")
				os.WriteFile(path, b, 0o644)
			}
		}
		fmt.Printf("violation: %s\n  %s\n  runs with this signature: %d, first seed %d\n", sig, detail, a.sigs[sig], o.Seed)
		violLines = append(violLines, fmt.Sprintf("VIOLATION property=%s replay=%s", prop, path))
	}

	for i, f := range findings {
		if f.Status == "known" && f.Property == prop {
			fmt.Printf("KNOWN-FINDING: property=%s %s [signature %s; seen in %d runs]\n", prop, f.What, f.Signature, knownSeen[i])
		}
	}

	writeEvidence(prop, tier, seed, tc, a, buildS, exploreS, time.Since(start).Seconds(), len(violLines), knownSigs, newSigs, detChecked)

	fmt.Printf("vcheck %s tier=%s seed=%d: %d runs (%d evaluations) in %.1fs (+%.1fs build), %d distinct non-trivial interleavings, verdicts=%v kernel=%v\n",
		prop, tier, seed, a.runs, a.evals, exploreS, buildS, len(a.ntHashes), a.verdicts, a.kernel)
	if stuck := a.stuck; stuck > 0 && len(violLines) == 0 {
		cleanup()
		infra("%d run(s) ended with a call that never returned (kernel verdict deadlock / no-progress) without this property's oracle raising a violation: not a verdict on %s, but never silently 'held' either (run C10 / C20 on this tree)", stuck, prop)
	}
	if unconfirmed > 0 && len(violLines) == 0 {
		cleanup()
		infra("%d violation(s) did not reproduce on replay (determinism problem)", unconfirmed)
	}
	if len(violLines) > 0 {
		for _, l := range violLines {
			fmt.Println(l)
		}
		cleanup()
		os.Exit(1)
	}
}

func sanitize(s string) string {
	r := strings.NewReplacer("/", "_", ",", "_", "=", "-", " ", "_", "*", "")
	s = r.Replace(s)
	if len(s) > 80 {
		s = s[:80]
	}
	return s
}

func firstLines(s string, n int) string {
	l := strings.Split(s, "\n")
	if len(l) > n {
		l = l[:n]
	}
	return strings.Join(l, "\n  ")
}
