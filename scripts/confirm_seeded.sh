#!/bin/bash
# confirm_seeded.sh <dir-with-patch.diff-and-demo-files> [suite]
# Confirms a seeded change in a scratch worktree of /repo's HEAD: the demonstration passes on the
# unmodified tree, fails with the change; with "suite" also runs the whole existing suite with the change.
# Demo files: every *_test.go in <dir> is copied to the path given in <dir>/PLACE (one "file dest" per line),
# default: files starting with "package internal" -> internal/, others -> repository root.
set -u
D=$(readlink -f $1); SUITE=${2:-}
export GOFLAGS=-mod=mod GOPROXY=off GOSUMDB=off GOTOOLCHAIN=local
WT=$(mktemp -d /tmp/confwt-XXXXXX)
git -C /repo worktree add --detach "$WT" HEAD >/dev/null 2>&1 || exit 2
trap 'git -C /repo worktree remove --force "$WT" >/dev/null 2>&1' EXIT
cd $WT
pk=""
for f in $D/*_test.go; do
  [ -f "$f" ] || continue
  if head -30 "$f" | grep -q "^package internal"; then cp "$f" internal/; pk="$pk ./internal/"; else cp "$f" .; pk="$pk ."; fi
done
pk=$(echo $pk | tr ' ' '\n' | sort -u | tr '\n' ' ')
names=$(grep -h "^func Test" $D/*_test.go | sed 's/func \(Test[A-Za-z0-9_]*\).*/\1/' | paste -sd'|')
echo "demo tests: $names in $pk"
echo "--- unmodified tree (must pass)"
go test -vet=off -count=1 -timeout 10m -run "^($names)\$" $pk 2>&1 | tail -3; base=${PIPESTATUS[0]}
git apply $D/patch.diff || { echo "PATCH DOES NOT APPLY"; exit 2; }
go build ./... || { echo "DOES NOT BUILD"; exit 2; }
go vet ./... >/dev/null 2>&1 || echo "vet complains"
echo "--- with the change (must fail)"
go test -vet=off -count=1 -timeout 10m -run "^($names)\$" $pk 2>&1 | tail -6; mut=${PIPESTATUS[0]}
echo "RESULT demo: base_exit=$base mutant_exit=$mut"
if [ "$SUITE" = suite ]; then
  rm -f $(for f in $D/*_test.go; do b=$(basename $f); echo ./$b ./internal/$b; done) 2>/dev/null
  echo "--- existing suite with the change"
  go test -vet=off -count=1 -timeout 25m ./... 2>&1 | grep -v "no test files" | grep -E "^(ok|FAIL|---|panic)" | tail -12
fi
