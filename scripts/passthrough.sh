#!/bin/bash
# passthrough.sh [go test args] - trusted-base check of the rewriter and the shims: instrument a scratch
# copy of /repo INCLUDING its test files (tests themselves are not rewritten), and run the repository's
# own suite on it. Outside a simulation every shim passes straight through to the real primitive, so the
# suite must pass exactly as on the original tree: the rewrite alone changes no behaviour.
export GOFLAGS=-mod=mod GOPROXY=off GOSUMDB=off GOTOOLCHAIN=local
S=$(mktemp -d /tmp/vpass-XXXXXX); trap 'rm -rf $S' EXIT
cd ${VERIF_REPO:-/repo}
git ls-files -co --exclude-standard | grep -vE '^(benchmarks|run|\.github)/' | while read f; do [ -f "$f" ] && cp --parents "$f" "$S/"; done
cd $S
cat >> go.mod <<EOT

require verifsim v0.0.0
replace verifsim => /verif/sim
EOT
/verif/bin/simrewrite -dir "$S" > rewrite.log || exit 2
go test -vet=off -count=1 -timeout 25m "${@:-./...}"
