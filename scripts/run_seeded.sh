#!/bin/bash
# run_seeded.sh <seeded-id> [property ...]
# Applies /verif/seeded/<id>/patch.diff to a scratch worktree of /repo's HEAD (so that /repo itself
# and checks running against it are not disturbed), runs the quick checks of the given properties
# (default: the property named in meta.json) against that worktree via VERIF_REPO, removes the worktree.
# With SEEDED_INPLACE=1 the patch is applied to /repo itself and undone afterwards.
# Prints one line per check: "<id> <property> exit=<n> <violation signatures>".
set -u
ID=$1; shift
D=/verif/seeded/$ID
[ -f "$D/patch.diff" ] || { echo "no $D/patch.diff"; exit 2; }
PROPS="$@"
[ -n "$PROPS" ] || PROPS=$(python3 -c "import json;print(json.load(open('$D/meta.json'))['property'])")
if [ "${SEEDED_INPLACE:-}" = 1 ]; then
  cd /repo
  [ -z "$(git status --porcelain)" ] || { echo "/repo is dirty"; exit 2; }
  git apply "$D/patch.diff" || { echo "patch does not apply"; exit 2; }
  trap 'git -C /repo checkout -- . ; git -C /repo clean -fdq' EXIT
  export VERIF_REPO=/repo
else
  WT=$(mktemp -d /tmp/seedwt-XXXXXX)
  git -C /repo worktree add --detach "$WT" HEAD >/dev/null 2>&1 || { echo "worktree failed"; exit 2; }
  trap 'git -C /repo worktree remove --force "$WT" >/dev/null 2>&1' EXIT
  git -C "$WT" apply "$D/patch.diff" || { echo "patch does not apply"; exit 2; }
  export VERIF_REPO=$WT
fi
cd /verif
for p in $PROPS; do
  out=$(VERIF_NOEVIDENCE=1 ./bin/vcheck $p --tier quick 2>&1); rc=$?
  sigs=$(echo "$out" | grep "^violation:" | sed 's/^violation: //' | tr '\n' ' ')
  echo "$ID $p exit=$rc $sigs"
done
