#!/bin/bash
# dev.sh [race] - (re)build the instrumented scratch copy under /tmp/vdev for interactive work
export GOFLAGS=-mod=mod GOPROXY=off GOSUMDB=off GOTOOLCHAIN=local
cd /verif && go build -o bin/simrewrite ./cmd/simrewrite && go build -o bin/vcheck ./cmd/vcheck || exit 2
D=/tmp/vdev${1:+-$1}
bash /verif/scripts/mkscratch.sh $D $1 || exit 2
echo built $D
