#!/bin/bash
# mkscratch.sh <scratch-dir> [race]  - instrumented scratch copy of /repo + harness, built
set -e
export GOFLAGS=-mod=mod GOPROXY=off GOSUMDB=off GOTOOLCHAIN=local
S=$1; RACE=$2
REPO=${VERIF_REPO:-/repo}
rm -rf "$S"; mkdir -p "$S"
cd "$REPO"
# current working tree (tracked + untracked non-ignored), non-test go files and module files
( git ls-files -co --exclude-standard | grep -E '(\.go$|^go\.(mod|sum)$)' | grep -v '_test\.go$' | grep -vE '^(benchmarks|run|\.github)/' ) | while read f; do [ -f "$f" ] && cp --parents "$f" "$S/"; done
cd "$S"
cat >> go.mod <<EOT

require verifsim v0.0.0
require github.com/anishathalye/porcupine v1.3.0
replace verifsim => /verif/sim
EOT
cat /verif/harness/go.sum.extra >> go.sum 2>/dev/null || true
/verif/bin/simrewrite -dir "$S" > "$S/rewrite.log"
cp /verif/harness/internal/zz_verif_whitebox.go internal/
cp /verif/harness/internal/clock_zz_verif.go internal/clock/zz_verif_clock.go
cp /verif/harness/root/zz_verif_access.go .
mkdir -p zharness && cp /verif/harness/zharness/*.go zharness/
if [ "$RACE" = race ]; then
  go build -race -o zharness.race ./zharness
else
  go build -o zharness.bin ./zharness
fi
