#!/bin/bash
# regress_seeded.sh [id ...]
# Re-runs, for every seeded change (default: all of /verif/seeded/*/ that have an "expect" list in
# meta.json), the quick checks of the properties that are expected to catch it, against a scratch
# worktree (scripts/run_seeded.sh). Prints one line per (change, property): CAUGHT / MISSED.
# Exit 1 if an expected catch is missed.
cd /verif
ids="$@"
[ -n "$ids" ] || ids=$(ls seeded)
rc=0
for id in $ids; do
  [ -f seeded/$id/meta.json ] || continue
  props=$(python3 -c "import json;print(' '.join(json.load(open('seeded/$id/meta.json')).get('expect',[])))")
  [ -n "$props" ] || { echo "$id: no expectation recorded"; continue; }
  ./scripts/run_seeded.sh $id $props 2>&1 | grep "^$id " | while read _ p ex sigs; do
    if [ "$ex" = "exit=1" ]; then echo "$id $p CAUGHT $(echo $sigs | cut -c1-160)"; else echo "$id $p MISSED ($ex)"; fi
  done | tee /tmp/regress.$$ 
  grep -q MISSED /tmp/regress.$$ && rc=1
  rm -f /tmp/regress.$$
done
exit $rc
