#!/bin/bash
# determinism.sh [n] - determinism self-test: for every property run the same n run indices in
# separate worker processes under GOMAXPROCS 1, 4 and 16 (twice each, one of them in the middle
# of a longer batch) and require identical (index, trace hash, verdict, steps) lists.
N=${1:-200}
export GOFLAGS=-mod=mod GOPROXY=off GOSUMDB=off GOTOOLCHAIN=local
D=$(mktemp -d /tmp/vdet-XXXXXX); trap 'rm -rf $D' EXIT
bash /verif/scripts/mkscratch.sh $D/s >/dev/null || exit 2
bad=0
for p in C01 C02 C03 C04 C05 C06 C07 C08 C09 C10 C11 C13 C14 C15 C16 C20; do
  n=$N; [ $p = C09 ] && n=20; [ $p = C11 ] && n=60; [ $p = C07 ] && n=60
  ref=""
  for procs in 1 4 16 1 16; do
    h=$($D/s/zharness.bin -prop $p -count $n -procs $procs -maxgoroutines 1000000 2>/dev/null | python3 -c "
import sys,json,hashlib
m=hashlib.sha256()
k=0
for l in sys.stdin:
    if l[0]!='{': continue
    o=json.loads(l); k+=1
    m.update(('%d %d %s %d %s\n'%(o['idx'],o['hash'],o['verdict'],o['steps'],sorted(v['sig'] for v in o.get('violations') or []))).encode())
print(k, m.hexdigest())")
    [ -z "$ref" ] && ref="$h"
    if [ "$h" != "$ref" ]; then echo "NONDETERMINISTIC $p procs=$procs: $h vs $ref"; bad=1; fi
  done
  echo "$p: $ref"
  # no state carried between runs of one process: the second half of the indices, run in a fresh
  # process that starts there, must match the second half of a process that ran the first half before
  h=$((n/2))
  a=$($D/s/zharness.bin -prop $p -count $n -maxgoroutines 1000000 2>/dev/null | python3 -c "
import sys,json
for l in sys.stdin:
    if l[0]=='{':
        o=json.loads(l)
        if o['idx']>=$h: print(o['idx'],o['hash'],o['verdict'],o['steps'])" | sha256sum)
  b=$($D/s/zharness.bin -prop $p -from $h -count $((n-h)) -procs 4 -maxgoroutines 1000000 2>/dev/null | python3 -c "
import sys,json
for l in sys.stdin:
    if l[0]=='{':
        o=json.loads(l); print(o['idx'],o['hash'],o['verdict'],o['steps'])" | sha256sum)
  if [ "$a" != "$b" ]; then echo "CROSS-RUN STATE $p: suffix differs when the process starts at index $h"; bad=1; fi
done
# C12 (one run is ~10^5 loads): two runs, two processes
for procs in 1 16; do $D/s/zharness.bin -prop C12 -count 2 -procs $procs 2>/dev/null | python3 -c "
import sys,json
print('C12', [ (json.loads(l)['idx'],json.loads(l)['hash'],json.loads(l)['evals']) for l in sys.stdin if l[0]=='{'])"; done
exit $bad
