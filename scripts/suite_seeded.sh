#!/bin/bash
# suite_seeded.sh <id>... - run the repository's existing suite with each seeded change applied (scratch worktree)
export GOFLAGS=-mod=mod GOPROXY=off GOSUMDB=off GOTOOLCHAIN=local
for ID in "$@"; do
  D=/verif/seeded/$ID
  WT=$(mktemp -d /tmp/suitewt-XXXXXX)
  git -C /repo worktree add --detach "$WT" HEAD >/dev/null 2>&1 || continue
  ( cd $WT && git apply $D/patch.diff && go test -vet=off -count=1 -timeout 25m ./... 2>&1 | grep -v "no test files" | grep -E "^(ok|FAIL|--- FAIL|panic)" ) > $D/suite.log 2>&1
  # the two tests that are timing-dependent on the unmodified tree: re-run alone if they were the only failures
  if grep -q "^--- FAIL" $D/suite.log; then
    others=$(grep "^--- FAIL" $D/suite.log | grep -v "TestSecondaryCache_ErrorHandler\|TestPersist_LoadingBasic\|TestPersist_Basic" | wc -l)
    echo "other failures than the three known timing-dependent tests: $others" >> $D/suite.log
    ( cd $WT && go test -vet=off -count=5 -run 'TestSecondaryCache_ErrorHandler$|TestPersist_LoadingBasic$|TestPersist_Basic$' . 2>&1 | tail -1 ) >> $D/suite.log
  fi
  git -C /repo worktree remove --force "$WT" >/dev/null 2>&1
  echo "$ID: $(grep -c '^ok' $D/suite.log) ok, $(grep -c '^--- FAIL' $D/suite.log) failed tests"
done
