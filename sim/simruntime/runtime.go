// Package simruntime is a stand-in for the parts of package runtime a library
// uses for scheduling and machine shape.
package simruntime

import (
	"runtime"

	"verifsim/simrt"
)

type (
	Frame    = runtime.Frame
	Frames   = runtime.Frames
	Func     = runtime.Func
	MemStats = runtime.MemStats
	Error    = runtime.Error
)

const (
	GOOS   = runtime.GOOS
	GOARCH = runtime.GOARCH
)

// Gosched: yield, and do not pick the caller again while another task can
// run - spin-waits become fair waits.
func Gosched() {
	if !simrt.Active() {
		runtime.Gosched()
		return
	}
	simrt.Gosched()
}

func Goexit() { runtime.Goexit() }

// GOMAXPROCS / NumCPU report the scenario's configured machine shape.
func GOMAXPROCS(n int) int {
	if !simrt.Active() {
		return runtime.GOMAXPROCS(n)
	}
	return simrt.Cfg().Parallelism
}

func NumCPU() int {
	if !simrt.Active() {
		return runtime.NumCPU()
	}
	return simrt.Cfg().Parallelism
}

func NumGoroutine() int                               { return runtime.NumGoroutine() }
func GC()                                             { runtime.GC() }
func KeepAlive(x any)                                 { runtime.KeepAlive(x) }
func SetFinalizer(obj any, finalizer any)             { runtime.SetFinalizer(obj, finalizer) }
func Caller(skip int) (uintptr, string, int, bool)    { return runtime.Caller(skip + 1) }
func Callers(skip int, pc []uintptr) int              { return runtime.Callers(skip+1, pc) }
func CallersFrames(callers []uintptr) *runtime.Frames { return runtime.CallersFrames(callers) }
func FuncForPC(pc uintptr) *runtime.Func              { return runtime.FuncForPC(pc) }
func Stack(buf []byte, all bool) int                  { return runtime.Stack(buf, all) }
func ReadMemStats(m *runtime.MemStats)                { runtime.ReadMemStats(m) }
func Version() string                                 { return runtime.Version() }
