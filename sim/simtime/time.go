// Package simtime is an API-compatible stand-in for package time whose clock,
// sleeps, timers and tickers run on the kernel's simulated clock.
package simtime

import (
	"time"

	"verifsim/simrt"
)

type (
	Duration   = time.Duration
	Time       = time.Time
	Month      = time.Month
	Weekday    = time.Weekday
	Location   = time.Location
	ParseError = time.ParseError
)

const (
	Nanosecond  = time.Nanosecond
	Microsecond = time.Microsecond
	Millisecond = time.Millisecond
	Second      = time.Second
	Minute      = time.Minute
	Hour        = time.Hour

	Layout      = time.Layout
	ANSIC       = time.ANSIC
	UnixDate    = time.UnixDate
	RFC822      = time.RFC822
	RFC1123     = time.RFC1123
	RFC3339     = time.RFC3339
	RFC3339Nano = time.RFC3339Nano
	Kitchen     = time.Kitchen
	DateTime    = time.DateTime
	DateOnly    = time.DateOnly
	TimeOnly    = time.TimeOnly

	January = time.January
	Sunday  = time.Sunday
)

var (
	UTC   = time.UTC
	Local = time.Local
)

// Epoch is wall-clock time zero of every simulated run.
var Epoch = time.Unix(1735689600, 0) // 2025-01-01T00:00:00Z

func Unix(sec, nsec int64) Time                   { return time.Unix(sec, nsec) }
func UnixMilli(ms int64) Time                     { return time.UnixMilli(ms) }
func UnixMicro(us int64) Time                     { return time.UnixMicro(us) }
func ParseDuration(s string) (Duration, error)    { return time.ParseDuration(s) }
func Parse(layout, value string) (Time, error)    { return time.Parse(layout, value) }
func FixedZone(name string, off int) *Location    { return time.FixedZone(name, off) }
func LoadLocation(name string) (*Location, error) { return time.LoadLocation(name) }
func Date(y int, m Month, d, h, mi, s, ns int, loc *Location) Time {
	return time.Date(y, m, d, h, mi, s, ns, loc)
}

// Now is a scheduling point (time moves only at scheduling points, so a
// deadline can pass "inside" an operation) and returns the simulated time.
//
//go:norace
func Now() Time {
	if !simrt.Active() {
		return time.Now()
	}
	simrt.Yield(simrt.KClock)
	return Epoch.Add(Duration(simrt.Now()))
}

func Since(t Time) Duration { return Now().Sub(t) }
func Until(t Time) Duration { return t.Sub(Now()) }

//go:norace
func Sleep(d Duration) {
	if !simrt.Active() {
		time.Sleep(d)
		return
	}
	simrt.Sleep(int64(d))
}

type Timer struct {
	C    <-chan Time
	c    chan Time
	tm   simrt.Timer
	f    func()
	real *time.Timer
}

//go:norace
func (t *Timer) arm(d Duration) {
	due := simrt.Now() + int64(d)
	t.tm = simrt.AddOneShot(due, func() {
		if t.f != nil {
			f := t.f
			simrt.Spawn("time.AfterFunc", f)
			return
		}
		simrt.TimerSend(t.c, Epoch.Add(Duration(simrt.Now())))
	})
}

//go:norace
func NewTimer(d Duration) *Timer {
	if !simrt.Active() {
		rt := time.NewTimer(d)
		return &Timer{C: rt.C, real: rt}
	}
	c := make(chan Time, 1)
	t := &Timer{C: c, c: c}
	t.arm(d)
	return t
}

//go:norace
func AfterFunc(d Duration, f func()) *Timer {
	if !simrt.Active() {
		return &Timer{real: time.AfterFunc(d, f)}
	}
	t := &Timer{f: f}
	t.arm(d)
	return t
}

func After(d Duration) <-chan Time { return NewTimer(d).C }

//go:norace
func (t *Timer) Stop() bool {
	if t.real != nil {
		return t.real.Stop()
	}
	return t.tm.Stop()
}

//go:norace
func (t *Timer) Reset(d Duration) bool {
	if t.real != nil {
		return t.real.Reset(d)
	}
	was := t.tm.Stop()
	t.arm(d)
	return was
}

type Ticker struct {
	C      <-chan Time
	c      chan Time
	period int64
	tm     simrt.Timer
	real   *time.Ticker
}

//go:norace
func (t *Ticker) arm(due int64) {
	t.tm = simrt.AddTimer(due, func() {
		simrt.TimerSend(t.c, Epoch.Add(Duration(simrt.Now())))
		simrt.Probe("ticker.fire")
		// like the runtime: ticks missed by more than a period are skipped
		next := due + t.period
		if now := simrt.Now(); next <= now {
			next = due + t.period*(1+(now-due)/t.period)
		}
		t.arm(next)
	})
}

//go:norace
func NewTicker(d Duration) *Ticker {
	if d <= 0 {
		panic("non-positive interval for NewTicker")
	}
	if !simrt.Active() {
		rt := time.NewTicker(d)
		return &Ticker{C: rt.C, real: rt}
	}
	c := make(chan Time, 1)
	t := &Ticker{C: c, c: c, period: int64(d)}
	t.arm(simrt.Now() + int64(d))
	return t
}

func Tick(d Duration) <-chan Time { return NewTicker(d).C }

//go:norace
func (t *Ticker) Stop() {
	if t.real != nil {
		t.real.Stop()
		return
	}
	t.tm.Stop()
}

//go:norace
func (t *Ticker) Reset(d Duration) {
	if d <= 0 {
		panic("non-positive interval for Ticker.Reset")
	}
	if t.real != nil {
		t.real.Reset(d)
		return
	}
	t.tm.Stop()
	t.period = int64(d)
	t.arm(simrt.Now() + int64(d))
}
