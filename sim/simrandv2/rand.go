// Package simrandv2 stands in for the global functions of math/rand/v2.
package simrandv2

import (
	"math/rand/v2"

	"verifsim/simrt"
)

type (
	Rand   = rand.Rand
	Source = rand.Source
	PCG    = rand.PCG
	Zipf   = rand.Zipf
)

func New(src Source) *Rand                          { return rand.New(src) }
func NewPCG(s1, s2 uint64) *PCG                     { return rand.NewPCG(s1, s2) }
func NewZipf(r *Rand, s, v float64, m uint64) *Zipf { return rand.NewZipf(r, s, v, m) }

func Uint32() uint32 { return simrt.Rand32() }
func Uint64() uint64 { return uint64(simrt.Rand32())<<32 | uint64(simrt.Rand32()) }
func Int() int       { return int(Uint64() >> 1) }
func Int64() int64   { return int64(Uint64() >> 1) }
func Int32() int32   { return int32(Uint32() >> 1) }
func IntN(n int) int {
	if n <= 0 {
		panic("invalid argument to IntN")
	}
	return int(Uint64() % uint64(n))
}
func Int64N(n int64) int64    { return int64(Uint64() % uint64(n)) }
func Uint32N(n uint32) uint32 { return Uint32() % n }
func Uint64N(n uint64) uint64 { return Uint64() % n }
func Float64() float64        { return float64(Uint64()>>11) / (1 << 53) }
func Float32() float32        { return float32(Uint32()>>8) / (1 << 24) }
func Perm(n int) []int {
	p := make([]int, n)
	for i := range p {
		p[i] = i
	}
	Shuffle(n, func(i, j int) { p[i], p[j] = p[j], p[i] })
	return p
}
func Shuffle(n int, swap func(i, j int)) {
	for i := n - 1; i > 0; i-- {
		swap(i, IntN(i+1))
	}
}
