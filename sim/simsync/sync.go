// Package simsync is an API-compatible stand-in for package sync. Each type
// wraps the REAL primitive and only ever uses its non-blocking form inside a
// simulation, so the race detector sees the genuine synchronisation while the
// kernel owns all waiting. Outside a simulation every method passes through.
package simsync

import (
	"sync"
	"unsafe"

	"verifsim/simrt"
)

type Locker = sync.Locker

// ---------------- Mutex ----------------

type Mutex struct {
	mu sync.Mutex
}

func (m *Mutex) SimName() string { return "mutex" }

//go:norace
func (m *Mutex) Lock() {
	if !simrt.Active() {
		m.mu.Lock()
		return
	}
	simrt.Yield(simrt.KLock)
	for !m.mu.TryLock() {
		simrt.Block(m)
	}
}

//go:norace
func (m *Mutex) TryLock() bool {
	if !simrt.Active() {
		return m.mu.TryLock()
	}
	simrt.Yield(simrt.KLock)
	return m.mu.TryLock()
}

//go:norace
func (m *Mutex) Unlock() {
	m.mu.Unlock()
	if !simrt.Active() {
		return
	}
	simrt.Notify(m)
	simrt.Released(m)
	simrt.Yield(simrt.KUnlock)
}

// ---------------- RWMutex ----------------

type RWMutex struct {
	rw      sync.RWMutex
	pending int // writers waiting: new readers are excluded (writer preference)
}

func (m *RWMutex) SimName() string { return "rwmutex" }

//go:norace
func (m *RWMutex) Lock() {
	if !simrt.Active() {
		m.rw.Lock()
		return
	}
	simrt.Yield(simrt.KLock)
	if m.rw.TryLock() {
		return
	}
	m.pending++
	for !m.rw.TryLock() {
		simrt.Block(m)
	}
	m.pending--
}

//go:norace
func (m *RWMutex) TryLock() bool {
	if !simrt.Active() {
		return m.rw.TryLock()
	}
	simrt.Yield(simrt.KLock)
	return m.rw.TryLock()
}

//go:norace
func (m *RWMutex) Unlock() {
	m.rw.Unlock()
	if !simrt.Active() {
		return
	}
	simrt.Notify(m)
	simrt.Released(m)
	simrt.Yield(simrt.KUnlock)
}

//go:norace
func (m *RWMutex) RLock() {
	if !simrt.Active() {
		m.rw.RLock()
		return
	}
	simrt.Yield(simrt.KRLock)
	for m.pending > 0 || !m.rw.TryRLock() {
		simrt.Block(m)
	}
}

//go:norace
func (m *RWMutex) TryRLock() bool {
	if !simrt.Active() {
		return m.rw.TryRLock()
	}
	simrt.Yield(simrt.KRLock)
	if m.pending > 0 {
		return false
	}
	return m.rw.TryRLock()
}

//go:norace
func (m *RWMutex) RUnlock() {
	m.rw.RUnlock()
	if !simrt.Active() {
		return
	}
	simrt.Notify(m)
	simrt.Yield(simrt.KRUnlock)
}

type rlocker RWMutex

func (r *rlocker) Lock()   { (*RWMutex)(r).RLock() }
func (r *rlocker) Unlock() { (*RWMutex)(r).RUnlock() }

func (m *RWMutex) RLocker() Locker { return (*rlocker)(m) }

// ---------------- WaitGroup ----------------

type WaitGroup struct {
	wg sync.WaitGroup
	n  int
}

func (w *WaitGroup) SimName() string { return "waitgroup" }

//go:norace
func (w *WaitGroup) Add(delta int) {
	if !simrt.Active() {
		w.wg.Add(delta)
		return
	}
	simrt.Yield(simrt.KOther)
	w.n += delta
	w.wg.Add(delta) // panics on negative counter exactly like the real one
	if w.n == 0 {
		simrt.Notify(w)
	}
}

func (w *WaitGroup) Done() { w.Add(-1) }

//go:norace
func (w *WaitGroup) Wait() {
	if !simrt.Active() {
		w.wg.Wait()
		return
	}
	simrt.Yield(simrt.KWait)
	for w.n > 0 {
		simrt.Block(w)
	}
	w.wg.Wait() // returns at once; gives the detector the real edge
}

// ---------------- Once ----------------

type Once struct {
	m    Mutex
	done bool
}

//go:norace
func (o *Once) Do(f func()) {
	o.m.Lock()
	defer o.m.Unlock()
	if !o.done {
		defer func() { o.done = true }()
		f()
	}
}

// ---------------- Cond ----------------

type Cond struct {
	L       Locker
	waiters []*int
}

func NewCond(l Locker) *Cond { return &Cond{L: l} }

//go:norace
func (c *Cond) Wait() {
	if !simrt.Active() {
		panic("simsync.Cond used outside a simulation")
	}
	tok := new(int)
	c.waiters = append(c.waiters, tok)
	c.L.Unlock()
	for *tok == 0 {
		simrt.Block(tok)
	}
	c.L.Lock()
}

//go:norace
func (c *Cond) Signal() {
	if len(c.waiters) > 0 {
		tok := c.waiters[0]
		c.waiters = c.waiters[1:]
		*tok = 1
		simrt.Notify(tok)
	}
}

//go:norace
func (c *Cond) Broadcast() {
	for _, tok := range c.waiters {
		*tok = 1
		simrt.Notify(tok)
	}
	c.waiters = nil
}

// ---------------- Pool ----------------

// Pool: inside a simulation a seeded choice between any pooled object and a
// fresh one; Put may drop the object (legal: the GC may empty a pool at any
// time). All pools are emptied at the start of every run.
type Pool struct {
	New   func() any
	items []any
	reg   bool
	real  sync.Pool
	race  [64]byte
}

var allPools []*Pool

func init() {
	simrt.RegisterReset(func() {
		for _, p := range allPools {
			p.items = nil
			p.reg = false
		}
		allPools = nil
	})
}

//go:norace
func (p *Pool) raceAddr(x any) unsafe.Pointer {
	h := uintptr((*[2]unsafe.Pointer)(unsafe.Pointer(&x))[1])
	return unsafe.Pointer(&p.race[(h>>4)%64])
}

//go:norace
func (p *Pool) Get() any {
	if !simrt.Active() {
		if x := p.real.Get(); x != nil {
			return x
		}
		if p.New != nil {
			return p.New()
		}
		return nil
	}
	simrt.Yield(simrt.KPool)
	if n := len(p.items); n > 0 {
		r := simrt.MiscRng()
		if r.Intn(100) < simrt.Cfg().PoolReuse {
			i := r.Intn(n)
			x := p.items[i]
			p.items[i] = p.items[n-1]
			p.items = p.items[:n-1]
			simrt.RaceAcquire(p.raceAddr(x))
			simrt.Probe("pool.reuse")
			return x
		}
	}
	if p.New != nil {
		return p.New()
	}
	return nil
}

//go:norace
func (p *Pool) Put(x any) {
	if x == nil {
		return
	}
	if !simrt.Active() {
		p.real.Put(x)
		return
	}
	simrt.Yield(simrt.KPool)
	if !p.reg {
		p.reg = true
		allPools = append(allPools, p)
	}
	if simrt.MiscRng().Intn(100) < simrt.Cfg().PoolDrop {
		return
	}
	simrt.RaceReleaseMerge(p.raceAddr(x))
	p.items = append(p.items, x)
}

// ---------------- Map ----------------

// Map is a mutex-protected map with sync.Map's API; Range iterates in the
// kernel's canonical order.
type Map struct {
	mu Mutex
	m  map[any]any
}

//go:norace
func (m *Map) Load(key any) (any, bool) {
	m.mu.Lock()
	defer m.mu.Unlock()
	v, ok := m.m[key]
	return v, ok
}

//go:norace
func (m *Map) Store(key, value any) {
	m.mu.Lock()
	defer m.mu.Unlock()
	if m.m == nil {
		m.m = map[any]any{}
	}
	m.m[key] = value
}

//go:norace
func (m *Map) LoadOrStore(key, value any) (any, bool) {
	m.mu.Lock()
	defer m.mu.Unlock()
	if v, ok := m.m[key]; ok {
		return v, true
	}
	if m.m == nil {
		m.m = map[any]any{}
	}
	m.m[key] = value
	return value, false
}

//go:norace
func (m *Map) LoadAndDelete(key any) (any, bool) {
	m.mu.Lock()
	defer m.mu.Unlock()
	v, ok := m.m[key]
	delete(m.m, key)
	return v, ok
}

func (m *Map) Delete(key any) { m.LoadAndDelete(key) }

//go:norace
func (m *Map) Swap(key, value any) (any, bool) {
	m.mu.Lock()
	defer m.mu.Unlock()
	v, ok := m.m[key]
	if m.m == nil {
		m.m = map[any]any{}
	}
	m.m[key] = value
	return v, ok
}

//go:norace
func (m *Map) CompareAndSwap(key, old, new any) bool {
	m.mu.Lock()
	defer m.mu.Unlock()
	if v, ok := m.m[key]; ok && v == old {
		m.m[key] = new
		return true
	}
	return false
}

//go:norace
func (m *Map) CompareAndDelete(key, old any) bool {
	m.mu.Lock()
	defer m.mu.Unlock()
	if v, ok := m.m[key]; ok && v == old {
		delete(m.m, key)
		return true
	}
	return false
}

//go:norace
func (m *Map) Range(f func(key, value any) bool) {
	m.mu.Lock()
	keys := simrt.MapOrder(m.m)
	m.mu.Unlock()
	for _, k := range keys {
		v, ok := m.Load(k)
		if !ok {
			continue
		}
		if !f(k, v) {
			return
		}
	}
}

//go:norace
func (m *Map) Clear() {
	m.mu.Lock()
	m.m = nil
	m.mu.Unlock()
}

// OnceFunc / OnceValue helpers of package sync are thin and rarely used in
// libraries; forwarded to the real ones.
func OnceFunc(f func()) func() { return sync.OnceFunc(f) }
