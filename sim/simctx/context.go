// Package simctx is a stand-in for package context: cancellation also tells
// the kernel, so tasks parked in a select on Done() are re-tried.
package simctx

import (
	"context"
	"time"

	"verifsim/simrt"
)

type (
	Context         = context.Context
	CancelFunc      = context.CancelFunc
	CancelCauseFunc = context.CancelCauseFunc
)

var (
	Canceled         = context.Canceled
	DeadlineExceeded = context.DeadlineExceeded
)

func Background() Context                            { return context.Background() }
func TODO() Context                                  { return context.TODO() }
func WithValue(parent Context, key, val any) Context { return context.WithValue(parent, key, val) }
func Cause(c Context) error                          { return context.Cause(c) }
func WithoutCancel(parent Context) Context           { return context.WithoutCancel(parent) }

//go:norace
func wrap(cancel context.CancelFunc) context.CancelFunc {
	return func() {
		cancel()
		if simrt.Active() {
			simrt.NotifyAll()
			simrt.Yield(simrt.KOther)
		}
	}
}

func WithCancel(parent Context) (Context, CancelFunc) {
	ctx, cancel := context.WithCancel(parent)
	return ctx, wrap(cancel)
}

func WithCancelCause(parent Context) (Context, CancelCauseFunc) {
	ctx, cancel := context.WithCancelCause(parent)
	return ctx, func(cause error) {
		cancel(cause)
		if simrt.Active() {
			simrt.NotifyAll()
			simrt.Yield(simrt.KOther)
		}
	}
}

// WithDeadline / WithTimeout run on simulated time inside a simulation.
//
//go:norace
func WithDeadline(parent Context, d time.Time) (Context, CancelFunc) {
	if !simrt.Active() {
		return context.WithDeadline(parent, d)
	}
	ctx, cancel := context.WithCancelCause(parent)
	due := int64(d.Sub(epoch))
	tm := simrt.AddTimer(due, func() {
		cancel(context.DeadlineExceeded)
		simrt.NotifyAll()
	})
	return ctx, func() {
		tm.Stop()
		cancel(context.Canceled)
		simrt.NotifyAll()
	}
}

var epoch = time.Unix(1735689600, 0)

func WithTimeout(parent Context, timeout time.Duration) (Context, CancelFunc) {
	if !simrt.Active() {
		return context.WithTimeout(parent, timeout)
	}
	return WithDeadline(parent, epoch.Add(time.Duration(simrt.Now())+timeout))
}

func AfterFunc(ctx Context, f func()) (stop func() bool) { return context.AfterFunc(ctx, f) }
