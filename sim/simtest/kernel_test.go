package simtest

import (
	"fmt"
	"testing"

	"verifsim/simrt"
	sync "verifsim/simsync"
	time "verifsim/simtime"
)

func runMutexCounter(seed uint64, sched int) (*simrt.Result, int) {
	total := 0
	res := simrt.Run(simrt.Config{Seed: seed, Sched: sched, SwitchPct: 20, PCTDepth: 2, Drift: 2}, func() {
		var mu sync.Mutex
		var ts []*simrt.Task
		for i := 0; i < 4; i++ {
			ts = append(ts, simrt.GoH(fmt.Sprint("w", i), func() {
				for j := 0; j < 10; j++ {
					mu.Lock()
					x := total
					simrt.Yield(simrt.KOther)
					total = x + 1
					mu.Unlock()
				}
			}))
		}
		for _, t := range ts {
			simrt.Join(t)
		}
	})
	return res, total
}

func TestMutex(t *testing.T) {
	hashes := map[uint64]bool{}
	for seed := uint64(1); seed <= 200; seed++ {
		for sched := 0; sched < 3; sched++ {
			r, total := runMutexCounter(seed, sched)
			if r.Verdict != "ok" || total != 40 {
				t.Fatalf("seed %d sched %d: %v total %d", seed, sched, r.Verdict, total)
			}
			r2, _ := runMutexCounter(seed, sched)
			if r2.Hash != r.Hash || r2.Steps != r.Steps {
				t.Fatalf("nondeterministic")
			}
			hashes[r.Hash] = true
		}
	}
	if len(hashes) < 300 {
		t.Fatalf("too few distinct interleavings: %d", len(hashes))
	}
}

func TestChannels(t *testing.T) {
	for seed := uint64(1); seed <= 300; seed++ {
		var got []int
		var ticks int
		r := simrt.Run(simrt.Config{Seed: seed, Drift: 3}, func() {
			buf := make(chan int, 2)
			unb := make(chan int)
			done := make(chan struct{})
			p := simrt.GoH("prod", func() {
				for i := 0; i < 5; i++ {
					simrt.Send(buf, i)
				}
				simrt.Close(buf)
				for i := 10; i < 13; i++ {
					simrt.Send(unb, i)
				}
				simrt.Close(done)
			})
			c := simrt.GoH("cons", func() {
				for {
					v, ok := simrt.Recv2(buf)
					if !ok {
						break
					}
					got = append(got, v)
				}
				tk := time.NewTicker(time.Second)
				for {
					cu := simrt.CaseRecv(unb)
					cd := simrt.CaseRecv(done)
					ct := simrt.CaseRecv(tk.C)
					switch simrt.Select(false, cu, cd, ct) {
					case 0:
						got = append(got, cu.Val)
						time.Sleep(1500 * time.Millisecond)
					case 1:
						tk.Stop()
						return
					case 2:
						ticks++
					}
				}
			})
			simrt.Join(p)
			simrt.Join(c)
		})
		if r.Verdict != "ok" {
			t.Fatalf("seed %d: %s %s %+v", seed, r.Verdict, r.Detail, r.Tasks)
		}
		if fmt.Sprint(got) != "[0 1 2 3 4 10 11 12]" {
			t.Fatalf("seed %d got %v", seed, got)
		}
		if r.Now < 4400e6 {
			t.Fatalf("time did not advance: %d", r.Now)
		}
	}
}

func TestDeadlock(t *testing.T) {
	r := simrt.Run(simrt.Config{Seed: 1}, func() {
		ch := make(chan int)
		simrt.Recv(ch)
	})
	if r.Verdict != "deadlock" {
		t.Fatalf("got %s", r.Verdict)
	}
	// with a periodic library ticker running: no-progress verdict
	r = simrt.Run(simrt.Config{Seed: 1}, func() {
		simrt.Go("lib", func() {
			tk := time.NewTicker(time.Second)
			for {
				simrt.Recv(tk.C)
			}
		})
		ch := make(chan int)
		simrt.Recv(ch)
	})
	if r.Verdict != "no-progress" {
		t.Fatalf("got %s", r.Verdict)
	}
	// AB-BA
	dl := 0
	for seed := uint64(0); seed < 200; seed++ {
		r = simrt.Run(simrt.Config{Seed: seed}, func() {
			var a, b sync.Mutex
			t1 := simrt.GoH("t1", func() { a.Lock(); b.Lock(); b.Unlock(); a.Unlock() })
			t2 := simrt.GoH("t2", func() { b.Lock(); a.Lock(); a.Unlock(); b.Unlock() })
			simrt.Join(t1)
			simrt.Join(t2)
		})
		if r.Verdict == "deadlock" {
			dl++
		} else if r.Verdict != "ok" {
			t.Fatal(r.Verdict)
		}
	}
	if dl == 0 || dl == 200 {
		t.Fatalf("AB-BA deadlocks: %d of 200", dl)
	}
	t.Logf("AB-BA deadlocks: %d of 200", dl)
}

func TestRWMutexWaitGroupStall(t *testing.T) {
	for seed := uint64(0); seed < 200; seed++ {
		readers := 0
		maxReaders := 0
		r := simrt.Run(simrt.Config{Seed: seed, Drift: 2}, func() {
			var rw sync.RWMutex
			var cm sync.Mutex
			var wg sync.WaitGroup
			shared := 0
			for i := 0; i < 3; i++ {
				wg.Add(1)
				simrt.GoH("r", func() {
					defer wg.Done()
					for j := 0; j < 5; j++ {
						rw.RLock()
						cm.Lock()
						readers++
						if readers > maxReaders {
							maxReaders = readers
						}
						cm.Unlock()
						_ = shared
						simrt.Yield(simrt.KOther)
						cm.Lock()
						readers--
						cm.Unlock()
						rw.RUnlock()
					}
				})
			}
			wg.Add(1)
			w := simrt.GoH("w", func() {
				defer wg.Done()
				for j := 0; j < 5; j++ {
					rw.Lock()
					cm.Lock()
					if readers != 0 {
						panic("writer with readers")
					}
					cm.Unlock()
					shared++
					rw.Unlock()
				}
			})
			simrt.StallTask(w, 5e9)
			wg.Wait()
			if shared != 5 {
				panic("lost writes")
			}
		})
		if r.Verdict != "ok" {
			t.Fatalf("seed %d: %s %s", seed, r.Verdict, r.Detail)
		}
		if r.Now < 5e9 {
			t.Fatalf("stall did not delay: %d", r.Now)
		}
	}
}
