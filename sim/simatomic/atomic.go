// Package simatomic is an API-compatible stand-in for sync/atomic: the real
// atomic operation, preceded by an optional scheduling point (yield class A).
package simatomic

import (
	"runtime"
	"sync/atomic"
	"unsafe"

	"verifsim/simrt"
)

// assoc list (not a map: maps report to the race detector from any caller)
var (
	pcKeys []uintptr
	pcVals []bool
)

func init() { simrt.RegisterReset(func() { pcKeys, pcVals = nil, nil }) }

// ay is the optional scheduling point before an atomic operation.
//
//go:norace
func ay() {
	if !simrt.Active() {
		return
	}
	c := simrt.Cfg()
	if c.AtomicAll {
		simrt.Yield(simrt.KAtomic)
		return
	}
	if len(c.AtomicFiles) == 0 {
		return
	}
	var pcs [1]uintptr
	if runtime.Callers(3, pcs[:]) == 0 {
		return
	}
	on, ok := false, false
	for i, pc := range pcKeys {
		if pc == pcs[0] {
			on, ok = pcVals[i], true
			break
		}
	}
	if !ok {
		fr, _ := runtime.CallersFrames(pcs[:]).Next()
		f := fr.File
		for i := len(f) - 1; i >= 0; i-- {
			if f[i] == '/' {
				f = f[i+1:]
				break
			}
		}
		on = c.AtomicFiles[f]
		pcKeys = append(pcKeys, pcs[0])
		pcVals = append(pcVals, on)
	}
	if on {
		simrt.Yield(simrt.KAtomic)
	}
}

type Int32 struct{ v atomic.Int32 }

//go:norace
func (x *Int32) Load() int32 { ay(); return x.v.Load() }

//go:norace
func (x *Int32) Store(v int32) { ay(); x.v.Store(v) }

//go:norace
func (x *Int32) Swap(v int32) int32 { ay(); return x.v.Swap(v) }

//go:norace
func (x *Int32) CompareAndSwap(o, n int32) bool { ay(); return x.v.CompareAndSwap(o, n) }

//go:norace
func (x *Int32) Add(d int32) int32 { ay(); return x.v.Add(d) }

//go:norace
func (x *Int32) And(m int32) int32 { ay(); return x.v.And(m) }

//go:norace
func (x *Int32) Or(m int32) int32 { ay(); return x.v.Or(m) }

//go:norace
func LoadInt32(p *int32) int32 { ay(); return atomic.LoadInt32(p) }

//go:norace
func StoreInt32(p *int32, v int32) { ay(); atomic.StoreInt32(p, v) }

//go:norace
func SwapInt32(p *int32, v int32) int32 { ay(); return atomic.SwapInt32(p, v) }

//go:norace
func CompareAndSwapInt32(p *int32, o, n int32) bool { ay(); return atomic.CompareAndSwapInt32(p, o, n) }

//go:norace
func AddInt32(p *int32, d int32) int32 { ay(); return atomic.AddInt32(p, d) }

//go:norace
func AndInt32(p *int32, m int32) int32 { ay(); return atomic.AndInt32(p, m) }

//go:norace
func OrInt32(p *int32, m int32) int32 { ay(); return atomic.OrInt32(p, m) }

type Int64 struct{ v atomic.Int64 }

//go:norace
func (x *Int64) Load() int64 { ay(); return x.v.Load() }

//go:norace
func (x *Int64) Store(v int64) { ay(); x.v.Store(v) }

//go:norace
func (x *Int64) Swap(v int64) int64 { ay(); return x.v.Swap(v) }

//go:norace
func (x *Int64) CompareAndSwap(o, n int64) bool { ay(); return x.v.CompareAndSwap(o, n) }

//go:norace
func (x *Int64) Add(d int64) int64 { ay(); return x.v.Add(d) }

//go:norace
func (x *Int64) And(m int64) int64 { ay(); return x.v.And(m) }

//go:norace
func (x *Int64) Or(m int64) int64 { ay(); return x.v.Or(m) }

//go:norace
func LoadInt64(p *int64) int64 { ay(); return atomic.LoadInt64(p) }

//go:norace
func StoreInt64(p *int64, v int64) { ay(); atomic.StoreInt64(p, v) }

//go:norace
func SwapInt64(p *int64, v int64) int64 { ay(); return atomic.SwapInt64(p, v) }

//go:norace
func CompareAndSwapInt64(p *int64, o, n int64) bool { ay(); return atomic.CompareAndSwapInt64(p, o, n) }

//go:norace
func AddInt64(p *int64, d int64) int64 { ay(); return atomic.AddInt64(p, d) }

//go:norace
func AndInt64(p *int64, m int64) int64 { ay(); return atomic.AndInt64(p, m) }

//go:norace
func OrInt64(p *int64, m int64) int64 { ay(); return atomic.OrInt64(p, m) }

type Uint32 struct{ v atomic.Uint32 }

//go:norace
func (x *Uint32) Load() uint32 { ay(); return x.v.Load() }

//go:norace
func (x *Uint32) Store(v uint32) { ay(); x.v.Store(v) }

//go:norace
func (x *Uint32) Swap(v uint32) uint32 { ay(); return x.v.Swap(v) }

//go:norace
func (x *Uint32) CompareAndSwap(o, n uint32) bool { ay(); return x.v.CompareAndSwap(o, n) }

//go:norace
func (x *Uint32) Add(d uint32) uint32 { ay(); return x.v.Add(d) }

//go:norace
func (x *Uint32) And(m uint32) uint32 { ay(); return x.v.And(m) }

//go:norace
func (x *Uint32) Or(m uint32) uint32 { ay(); return x.v.Or(m) }

//go:norace
func LoadUint32(p *uint32) uint32 { ay(); return atomic.LoadUint32(p) }

//go:norace
func StoreUint32(p *uint32, v uint32) { ay(); atomic.StoreUint32(p, v) }

//go:norace
func SwapUint32(p *uint32, v uint32) uint32 { ay(); return atomic.SwapUint32(p, v) }

//go:norace
func CompareAndSwapUint32(p *uint32, o, n uint32) bool {
	ay()
	return atomic.CompareAndSwapUint32(p, o, n)
}

//go:norace
func AddUint32(p *uint32, d uint32) uint32 { ay(); return atomic.AddUint32(p, d) }

//go:norace
func AndUint32(p *uint32, m uint32) uint32 { ay(); return atomic.AndUint32(p, m) }

//go:norace
func OrUint32(p *uint32, m uint32) uint32 { ay(); return atomic.OrUint32(p, m) }

type Uint64 struct{ v atomic.Uint64 }

//go:norace
func (x *Uint64) Load() uint64 { ay(); return x.v.Load() }

//go:norace
func (x *Uint64) Store(v uint64) { ay(); x.v.Store(v) }

//go:norace
func (x *Uint64) Swap(v uint64) uint64 { ay(); return x.v.Swap(v) }

//go:norace
func (x *Uint64) CompareAndSwap(o, n uint64) bool { ay(); return x.v.CompareAndSwap(o, n) }

//go:norace
func (x *Uint64) Add(d uint64) uint64 { ay(); return x.v.Add(d) }

//go:norace
func (x *Uint64) And(m uint64) uint64 { ay(); return x.v.And(m) }

//go:norace
func (x *Uint64) Or(m uint64) uint64 { ay(); return x.v.Or(m) }

//go:norace
func LoadUint64(p *uint64) uint64 { ay(); return atomic.LoadUint64(p) }

//go:norace
func StoreUint64(p *uint64, v uint64) { ay(); atomic.StoreUint64(p, v) }

//go:norace
func SwapUint64(p *uint64, v uint64) uint64 { ay(); return atomic.SwapUint64(p, v) }

//go:norace
func CompareAndSwapUint64(p *uint64, o, n uint64) bool {
	ay()
	return atomic.CompareAndSwapUint64(p, o, n)
}

//go:norace
func AddUint64(p *uint64, d uint64) uint64 { ay(); return atomic.AddUint64(p, d) }

//go:norace
func AndUint64(p *uint64, m uint64) uint64 { ay(); return atomic.AndUint64(p, m) }

//go:norace
func OrUint64(p *uint64, m uint64) uint64 { ay(); return atomic.OrUint64(p, m) }

type Uintptr struct{ v atomic.Uintptr }

//go:norace
func (x *Uintptr) Load() uintptr { ay(); return x.v.Load() }

//go:norace
func (x *Uintptr) Store(v uintptr) { ay(); x.v.Store(v) }

//go:norace
func (x *Uintptr) Swap(v uintptr) uintptr { ay(); return x.v.Swap(v) }

//go:norace
func (x *Uintptr) CompareAndSwap(o, n uintptr) bool { ay(); return x.v.CompareAndSwap(o, n) }

//go:norace
func (x *Uintptr) Add(d uintptr) uintptr { ay(); return x.v.Add(d) }

//go:norace
func (x *Uintptr) And(m uintptr) uintptr { ay(); return x.v.And(m) }

//go:norace
func (x *Uintptr) Or(m uintptr) uintptr { ay(); return x.v.Or(m) }

//go:norace
func LoadUintptr(p *uintptr) uintptr { ay(); return atomic.LoadUintptr(p) }

//go:norace
func StoreUintptr(p *uintptr, v uintptr) { ay(); atomic.StoreUintptr(p, v) }

//go:norace
func SwapUintptr(p *uintptr, v uintptr) uintptr { ay(); return atomic.SwapUintptr(p, v) }

//go:norace
func CompareAndSwapUintptr(p *uintptr, o, n uintptr) bool {
	ay()
	return atomic.CompareAndSwapUintptr(p, o, n)
}

//go:norace
func AddUintptr(p *uintptr, d uintptr) uintptr { ay(); return atomic.AddUintptr(p, d) }

//go:norace
func AndUintptr(p *uintptr, m uintptr) uintptr { ay(); return atomic.AndUintptr(p, m) }

//go:norace
func OrUintptr(p *uintptr, m uintptr) uintptr { ay(); return atomic.OrUintptr(p, m) }

type Bool struct{ v atomic.Bool }

//go:norace
func (x *Bool) Load() bool { ay(); return x.v.Load() }

//go:norace
func (x *Bool) Store(v bool) { ay(); x.v.Store(v) }

//go:norace
func (x *Bool) Swap(v bool) bool { ay(); return x.v.Swap(v) }

//go:norace
func (x *Bool) CompareAndSwap(o, n bool) bool { ay(); return x.v.CompareAndSwap(o, n) }

type Pointer[T any] struct{ v atomic.Pointer[T] }

//go:norace
func (x *Pointer[T]) Load() *T { ay(); return x.v.Load() }

//go:norace
func (x *Pointer[T]) Store(v *T) { ay(); x.v.Store(v) }

//go:norace
func (x *Pointer[T]) Swap(v *T) *T { ay(); return x.v.Swap(v) }

//go:norace
func (x *Pointer[T]) CompareAndSwap(o, n *T) bool { ay(); return x.v.CompareAndSwap(o, n) }

type Value struct{ v atomic.Value }

//go:norace
func (x *Value) Load() any { ay(); return x.v.Load() }

//go:norace
func (x *Value) Store(v any) { ay(); x.v.Store(v) }

//go:norace
func (x *Value) Swap(v any) any { ay(); return x.v.Swap(v) }

//go:norace
func (x *Value) CompareAndSwap(o, n any) bool { ay(); return x.v.CompareAndSwap(o, n) }

//go:norace
func LoadPointer(p *unsafe.Pointer) unsafe.Pointer { ay(); return atomic.LoadPointer(p) }

//go:norace
func StorePointer(p *unsafe.Pointer, v unsafe.Pointer) { ay(); atomic.StorePointer(p, v) }

//go:norace
func SwapPointer(p *unsafe.Pointer, v unsafe.Pointer) unsafe.Pointer {
	ay()
	return atomic.SwapPointer(p, v)
}

//go:norace
func CompareAndSwapPointer(p *unsafe.Pointer, o, n unsafe.Pointer) bool {
	ay()
	return atomic.CompareAndSwapPointer(p, o, n)
}

// SimPeek reads the value without a scheduling point and without telling the
// race detector (white-box snapshots only).

//go:norace
func (x *Int32) SimPeek() int32 { return *(*int32)(unsafe.Pointer(&x.v)) }

//go:norace
func (x *Int64) SimPeek() int64 { return *(*int64)(unsafe.Pointer(&x.v)) }

//go:norace
func (x *Uint32) SimPeek() uint32 { return *(*uint32)(unsafe.Pointer(&x.v)) }

//go:norace
func (x *Uint64) SimPeek() uint64 { return *(*uint64)(unsafe.Pointer(&x.v)) }

//go:norace
func (x *Uintptr) SimPeek() uintptr { return *(*uintptr)(unsafe.Pointer(&x.v)) }
