// Package simrand stands in for math/rand: explicit sources pass through
// (they are deterministic given their seed); the global functions draw from
// the run's PRNG.
package simrand

import (
	"math/rand"

	"verifsim/simrt"
)

type (
	Rand     = rand.Rand
	Source   = rand.Source
	Source64 = rand.Source64
	Zipf     = rand.Zipf
)

func New(src Source) *Rand                          { return rand.New(src) }
func NewSource(seed int64) Source                   { return rand.NewSource(seed) }
func NewZipf(r *Rand, s, v float64, m uint64) *Zipf { return rand.NewZipf(r, s, v, m) }
func Seed(seed int64)                               {}

func u64() uint64          { return uint64(simrt.Rand32())<<32 | uint64(simrt.Rand32()) }
func Uint32() uint32       { return simrt.Rand32() }
func Uint64() uint64       { return u64() }
func Int() int             { return int(u64() >> 1) }
func Int63() int64         { return int64(u64() >> 1) }
func Int31() int32         { return int32(simrt.Rand32() >> 1) }
func Intn(n int) int       { return int(u64() % uint64(n)) }
func Int63n(n int64) int64 { return int64(u64() % uint64(n)) }
func Int31n(n int32) int32 { return int32(simrt.Rand32() % uint32(n)) }
func Float64() float64     { return float64(u64()>>11) / (1 << 53) }
func Float32() float32     { return float32(simrt.Rand32()>>8) / (1 << 24) }
func Perm(n int) []int {
	p := make([]int, n)
	for i := range p {
		p[i] = i
	}
	Shuffle(n, func(i, j int) { p[i], p[j] = p[j], p[i] })
	return p
}
func Shuffle(n int, swap func(i, j int)) {
	for i := n - 1; i > 0; i-- {
		swap(i, Intn(i+1))
	}
}
