module verifsim

go 1.23
