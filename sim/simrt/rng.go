package simrt

// splitmix64: the only source of randomness in a run.
type Rng struct{ s uint64 }

//go:norace
func NewRng(seed uint64) *Rng { return &Rng{s: seed} }

//go:norace
func (r *Rng) Uint64() uint64 {
	r.s += 0x9e3779b97f4a7c15
	z := r.s
	z = (z ^ (z >> 30)) * 0xbf58476d1ce4e5b9
	z = (z ^ (z >> 27)) * 0x94d049bb133111eb
	return z ^ (z >> 31)
}

// Intn returns a value in [0,n). n<=1 returns 0 without consuming state.
//
//go:norace
func (r *Rng) Intn(n int) int {
	if n <= 1 {
		return 0
	}
	return int(r.Uint64() % uint64(n))
}

//go:norace
func (r *Rng) Float64() float64 { return float64(r.Uint64()>>11) / (1 << 53) }

// Derive returns an independent stream labelled by tag.
//
//go:norace
func Derive(seed uint64, tag uint64) uint64 {
	r := Rng{s: seed ^ (tag * 0xd6e8feb86659fd93)}
	r.Uint64()
	return r.Uint64()
}
