// Package simrt is the deterministic simulation kernel: one task runs at a
// time, every scheduling decision, time increment and fault comes from one
// seeded PRNG, and all waiting is owned by the kernel (so a deadlock is a
// kernel verdict, not a timeout).
//
// Everything in this package is //go:norace: in race builds the kernel must
// contribute neither happens-before edges (hand-offs run under
// runtime.RaceDisable) nor recorded accesses.
package simrt

import (
	"runtime/debug"
	"unsafe"
)

type Kind uint8

const (
	KLock Kind = iota
	KUnlock
	KRLock
	KRUnlock
	KChan
	KSelect
	KAtomic
	KClock
	KGosched
	KGo
	KExit
	KStub
	KCall
	KTimer
	KWait
	KPool
	KOther
)

const (
	SchedUniform = iota
	SchedSticky
	SchedPCT
)

type Config struct {
	Seed        uint64
	MaxSteps    int64 // step budget (default 400k)
	Sched       int   // SchedUniform | SchedSticky | SchedPCT
	SwitchPct   int   // sticky: probability (percent) of a pre-emption at a yield
	PCTDepth    int   // PCT: number of priority change points
	PCTSteps    int64 // PCT: horizon over which change points are spread
	Drift       int   // 0 none, 1 ~100ns, 2 ~10us, 3 ~10ms, 4 heavy tail
	AtomicAll   bool  // every atomic operation is a scheduling point
	AtomicFiles map[string]bool
	Parallelism int // value reported by simruntime.GOMAXPROCS/NumCPU
	ShuffleMaps bool
	PoolReuse   int   // percent: pooled object handed out when available (else New)
	PoolDrop    int   // percent: Put drops the object (legal: GC)
	IdleLimit   int   // idle jumps without harness progress => "no-progress" verdict
	TraceRing   int   // keep the last N events for the human-readable trace
	StartNanos  int64 // initial simulated time offset (ns since epoch)
	Record      bool    // record every scheduling choice (index into the candidate list)
	Replay      []int32 // follow these recorded choices instead of the scheduler flavour; beyond its end: 0 = keep running the current task / first candidate
	UseReplay   bool
}

type taskState uint8

const (
	stRunnable taskState = iota
	stBlocked
	stDone
)

type Task struct {
	ID       int
	Name     string // go-site for library tasks, given name for harness tasks
	Harness  bool
	Label    string // what the task is doing (harness: current API call)
	state    taskState
	wake     chan struct{}
	keys     []any
	stallTo  int64
	prio     int64
	goschedN int64 // step number at which it last called Gosched
	panicked any
	joinTok  int64
	Stack    string
}

type TaskInfo struct {
	ID      int
	Name    string
	Harness bool
	Label   string
	State   string // runnable | blocked | done
	WaitOn  string
}

type timer struct {
	due     int64
	seq     uint64
	fn      func()
	stopped bool
	harness bool
	idx     int
}

type Event struct {
	Seq   uint64
	Task  int
	Kind  Kind
	Now   int64
	Label string
}

type Result struct {
	Verdict   string // ok | deadlock | no-progress | panic | budget
	Detail    string
	Tasks     []TaskInfo
	Steps     int64
	Switches  int64
	Now       int64
	IdleJumps int64
	Hash      uint64
	Probes    map[string]int
	Faults    map[string]int
	Trace     []Event
	NTasks    int
	Choices   []int32 // recorded scheduling choices (Config.Record)
	Diverged  int     // replayed choices that were not admissible any more
}

type Kernel struct {
	cfg       Config
	sched     *Rng
	drift     *Rng
	misc      *Rng
	tasks     []*Task
	cur       *Task
	now       int64
	steps     int64
	switches  int64
	seq       uint64
	timers    []*timer
	timerSeq  uint64
	hash      uint64
	done      chan struct{}
	res       *Result
	probes    counters
	faults    counters
	monitors  []monitor
	idleJumps int64
	idleRun   int // consecutive idle jumps without a harness step
	finished  bool
	pctPoints []int64
	pctLow    int64
	ring      []Event
	ringPos   int
	rdv       []*rendezvous
	resetters []func()
	stepHooks []func()
	doneTok   int64
	nextID    int
	doneCount int
	pruned    int
	choices   []int32
	replayPos int
	diverged  int
}

// K is the kernel of the run in progress; nil outside a simulation, in which
// case every shim passes straight through to the real primitive.
var K *Kernel

//go:norace
func Active() bool { return K != nil }

var globalResetters []func()

// RegisterReset registers a function run at the start of every simulated run
// (package-level pools use it so no state leaks from one run to the next).
//
//go:norace
func RegisterReset(f func()) { globalResetters = append(globalResetters, f) }

// Run executes one simulated run and returns its result. root runs as the
// first (harness) task; the run ends when root returns, or with a verdict.
//
//go:norace
func Run(cfg Config, root func()) *Result {
	if cfg.MaxSteps == 0 {
		cfg.MaxSteps = 400000
	}
	if cfg.IdleLimit == 0 {
		cfg.IdleLimit = 300
	}
	if cfg.Parallelism == 0 {
		cfg.Parallelism = 4
	}
	if cfg.PCTSteps == 0 {
		cfg.PCTSteps = 2000
	}
	k := &Kernel{
		cfg:    cfg,
		sched:  NewRng(Derive(cfg.Seed, 1)),
		drift:  NewRng(Derive(cfg.Seed, 2)),
		misc:   NewRng(Derive(cfg.Seed, 3)),
		done:   make(chan struct{}, 1),
		now:    cfg.StartNanos,
		hash:   1469598103934665603,
		pctLow: -1,
	}
	if cfg.TraceRing > 0 {
		k.ring = make([]Event, cfg.TraceRing)
	}
	if cfg.Sched == SchedPCT {
		pr := NewRng(Derive(cfg.Seed, 4))
		for i := 0; i < cfg.PCTDepth; i++ {
			k.pctPoints = append(k.pctPoints, int64(pr.Intn(int(cfg.PCTSteps))))
		}
	}
	for _, f := range globalResetters {
		f()
	}
	K = k
	t := k.newTask("root", true)
	k.cur = t
	go k.taskMain(t, root)
	raceDisable()
	t.wake <- struct{}{}
	<-k.done
	raceEnable()
	RaceAcquire(unsafe.Pointer(&k.doneTok))
	K = nil
	r := k.res
	r.Steps = k.steps
	r.Switches = k.switches
	r.Now = k.now
	r.IdleJumps = k.idleJumps
	r.Hash = k.hash
	r.Probes = k.probes.toMap()
	r.Faults = k.faults.toMap()
	r.NTasks = k.nextID
	r.Choices = k.choices
	r.Diverged = k.diverged
	r.Tasks = k.taskInfos()
	if k.ring != nil {
		n := len(k.ring)
		for i := 0; i < n; i++ {
			e := k.ring[(k.ringPos+i)%n]
			if e.Seq != 0 {
				r.Trace = append(r.Trace, e)
			}
		}
	}
	return r
}

//go:norace
func (k *Kernel) newTask(name string, harness bool) *Task {
	t := &Task{ID: k.nextID, Name: name, Harness: harness, wake: make(chan struct{}, 1)}
	k.nextID++
	if k.cfg.Sched == SchedPCT {
		t.prio = int64(k.sched.Uint64()>>2) + 1000
	}
	k.tasks = append(k.tasks, t)
	return t
}

//go:norace
func (k *Kernel) taskMain(t *Task, f func()) {
	raceDisable()
	<-t.wake
	raceEnable()
	normal := false
	defer func() {
		var r any
		if !normal {
			r = recover() // nil for runtime.Goexit
		}
		k.taskExit(t, r, !normal && r == nil)
	}()
	f()
	normal = true
}

//go:norace
func (k *Kernel) taskExit(t *Task, r any, goexit bool) {
	if k.finished || K != k {
		return
	}
	t.state = stDone
	k.doneCount++
	if k.doneCount > 64 && k.doneCount*2 > len(k.tasks) {
		// forget finished tasks (long runs that build many caches)
		w := 0
		for _, x := range k.tasks {
			if x.state != stDone || x.ID == 0 || x == t {
				k.tasks[w] = x
				w++
			} else {
				k.pruned++
			}
		}
		for i := w; i < len(k.tasks); i++ {
			k.tasks[i] = nil
		}
		k.tasks = k.tasks[:w]
		k.doneCount = 0
	}
	RaceRelease(unsafe.Pointer(&t.joinTok))
	k.event(KExit, "")
	if r != nil {
		t.panicked = r
		t.Stack = string(debug.Stack())
		k.finish("panic", "task "+t.Name+" ("+t.Label+") panicked: "+anyString(r))
		return
	}
	k.notify(t)
	if t.ID == 0 {
		k.finish("ok", "")
		return
	}
	// hand the token on without parking
	next := k.pickNext(true)
	if next == nil {
		return // run finished inside pickNext
	}
	k.cur = next
	k.switches++
	raceDisable()
	next.wake <- struct{}{}
	raceEnable()
}

//go:norace
func (k *Kernel) finish(verdict, detail string) {
	if k.finished {
		return
	}
	k.finished = true
	k.res = &Result{Verdict: verdict, Detail: detail}
	RaceRelease(unsafe.Pointer(&k.doneTok))
	k.done <- struct{}{}
}

// park the calling goroutine for ever (the run is over).
//
//go:norace
func parkForever() {
	raceDisable()
	select {}
}

//go:norace
func (k *Kernel) event(kind Kind, label string) {
	k.seq++
	k.hash = (k.hash ^ (uint64(k.cur.ID)<<8 | uint64(kind))) * 1099511628211
	if k.ring != nil {
		k.ring[k.ringPos] = Event{Seq: k.seq, Task: k.cur.ID, Kind: kind, Now: k.now, Label: label}
		k.ringPos = (k.ringPos + 1) % len(k.ring)
	}
}

// step accounts for one scheduling point of the current task: budget, drift,
// timers.
//
//go:norace
func (k *Kernel) step(kind Kind) {
	k.steps++
	if k.cur.Harness {
		k.idleRun = 0
	}
	k.event(kind, "")
	if k.steps > k.cfg.MaxSteps {
		k.finish("budget", "step budget exhausted")
		parkForever()
	}
	switch k.cfg.Drift {
	case 1:
		k.now += int64(k.drift.Intn(200))
	case 2:
		k.now += int64(k.drift.Intn(20000))
	case 3:
		k.now += int64(k.drift.Intn(20000000))
	case 4:
		x := k.drift.Intn(10000)
		switch {
		case x < 3:
			k.now += int64(k.drift.Intn(40)) * 1e9
		case x < 60:
			k.now += int64(k.drift.Intn(1500)) * 1e6
		default:
			k.now += int64(k.drift.Intn(3000))
		}
	}
	if k.cfg.Sched == SchedPCT {
		for _, p := range k.pctPoints {
			if p == k.steps {
				k.cur.prio = k.pctLow
				k.pctLow--
			}
		}
	}
	k.fireTimers()
	for _, h := range k.stepHooks {
		h()
	}
}

//go:norace
func (k *Kernel) eligible(t *Task) bool {
	return t.state == stRunnable && t.stallTo <= k.now
}

// pickNext chooses the next task to run. exclCur: the current task is not a
// candidate (it blocked, exited, or called Gosched with others runnable).
// Returns nil only if the run was finished (deadlock / no-progress).
//
//go:norace
func (k *Kernel) pickNext(exclCur bool) *Task {
	for {
		var cand []*Task
		curOK := false
		for _, t := range k.tasks {
			if !k.eligible(t) {
				continue
			}
			if t == k.cur {
				if exclCur {
					continue
				}
				curOK = true
				continue
			}
			cand = append(cand, t)
		}
		if curOK {
			// option 0 is always "keep running the current task"
			cand = append([]*Task{k.cur}, cand...)
		}
		if len(cand) > 0 {
			return k.choose(cand, curOK)
		}
		if exclCur && k.cur.state == stRunnable && k.cur.stallTo <= k.now && !k.hasPending() {
			// Gosched with nobody else to run and nothing pending: keep spinning
			return k.cur
		}
		if !k.idleJump() {
			return nil
		}
		if exclCur && k.eligible(k.cur) && k.cur.state == stRunnable {
			// after a time jump a spinning task may continue
			exclCur = false
		}
	}
}

//go:norace
func (k *Kernel) hasPending() bool {
	for _, tm := range k.timers {
		if !tm.stopped {
			return true
		}
	}
	for _, t := range k.tasks {
		if t.state == stRunnable && t.stallTo > k.now {
			return true
		}
	}
	return false
}

//go:norace
func (k *Kernel) choose(cand []*Task, curFirst bool) *Task {
	if len(cand) == 1 {
		return cand[0]
	}
	if k.cfg.UseReplay {
		// replay (and schedule minimisation): the recorded index into the candidate list
		i := 0
		if k.replayPos < len(k.cfg.Replay) {
			i = int(k.cfg.Replay[k.replayPos])
		}
		k.replayPos++
		if i >= len(cand) || i < 0 {
			k.diverged++
			i = 0
		}
		if k.cfg.Record {
			k.choices = append(k.choices, int32(i))
		}
		return cand[i]
	}
	t := k.chooseByFlavour(cand, curFirst)
	if k.cfg.Record {
		for i, c := range cand {
			if c == t {
				k.choices = append(k.choices, int32(i))
				break
			}
		}
	}
	return t
}

//go:norace
func (k *Kernel) chooseByFlavour(cand []*Task, curFirst bool) *Task {
	switch k.cfg.Sched {
	case SchedSticky:
		if curFirst {
			if k.sched.Intn(100) >= k.cfg.SwitchPct {
				return cand[0]
			}
			return cand[1+k.sched.Intn(len(cand)-1)]
		}
		return cand[k.sched.Intn(len(cand))]
	case SchedPCT:
		best := cand[0]
		for _, t := range cand[1:] {
			if t.prio > best.prio {
				best = t
			}
		}
		return best
	default:
		return cand[k.sched.Intn(len(cand))]
	}
}

// idleJump advances simulated time to the next timer or stall release.
// Returns false if the run was finished (nothing can ever run again, or no
// harness task has made progress for IdleLimit jumps).
//
//go:norace
func (k *Kernel) idleJump() bool {
	next := int64(-1)
	harnessPending := false
	for _, tm := range k.timers {
		if tm.stopped {
			continue
		}
		if next < 0 || tm.due < next {
			next = tm.due
		}
		if tm.harness {
			harnessPending = true
		}
	}
	for _, t := range k.tasks {
		if t.state == stRunnable && t.stallTo > k.now {
			if next < 0 || t.stallTo < next {
				next = t.stallTo
			}
			harnessPending = true
		}
	}
	if next < 0 {
		k.finish("deadlock", "no task can run and no timer is pending")
		parkForever()
		return false
	}
	k.idleJumps++
	k.idleRun++
	if !harnessPending && k.idleRun > k.cfg.IdleLimit {
		k.finish("no-progress", "no harness task made progress during the last idle period (only periodic library timers fire)")
		parkForever()
		return false
	}
	if next > k.now {
		k.now = next
	}
	k.fireTimers()
	return true
}

// reschedule is called by the current task at a scheduling point.
//
//go:norace
func (k *Kernel) reschedule(exclCur bool) {
	cur := k.cur
	next := k.pickNext(exclCur)
	if next == nil || next == cur {
		return
	}
	k.cur = next
	k.switches++
	raceDisable()
	next.wake <- struct{}{}
	<-cur.wake
	raceEnable()
}

// Yield is a scheduling point.
//
//go:norace
func Yield(kind Kind) {
	k := K
	if k == nil {
		return
	}
	k.step(kind)
	k.reschedule(false)
}

// Gosched yields and does not pick the caller again while another task can run.
//
//go:norace
func Gosched() {
	k := K
	if k == nil {
		return
	}
	k.step(KGosched)
	if k.cfg.Sched == SchedPCT {
		// the runtime's scheduler is fair to a goroutine that yields: everybody else that can run
		// gets a turn before it. Under PCT two tasks that spin with Gosched (writers waiting for a
		// reader slot to drain) would otherwise hand the processor to each other for ever and
		// starve the lower-priority task they are waiting for
		k.cur.prio = k.pctLow
		k.pctLow--
	}
	k.reschedule(true)
}

// Block parks the current task until Notify is called with one of keys.
//
//go:norace
func Block(keys ...any) {
	k := K
	cur := k.cur
	cur.state = stBlocked
	cur.keys = keys
	k.step(KWait)
	// a timer fired inside step may already have notified us
	k.reschedule(cur.state != stRunnable)
	cur.keys = nil
}

// Notify makes every task blocked on key runnable again (they re-try).
//
//go:norace
func Notify(key any) {
	if k := K; k != nil {
		k.notify(key)
	}
}

//go:norace
func (k *Kernel) notify(key any) {
	for _, t := range k.tasks {
		if t.state != stBlocked {
			continue
		}
		for _, x := range t.keys {
			if x == key {
				t.state = stRunnable
				break
			}
		}
	}
}

// NotifyAll wakes every blocked task (used by context cancellation).
//
//go:norace
func NotifyAll() {
	if k := K; k != nil {
		for _, t := range k.tasks {
			if t.state == stBlocked {
				t.state = stRunnable
			}
		}
	}
}

// Go starts a library task (rewritten `go` statement).
//
//go:norace
func Go(site string, f func()) {
	k := K
	if k == nil {
		go f()
		return
	}
	t := k.newTask(site, false)
	go k.taskMain(t, f)
	k.step(KGo)
	k.reschedule(false)
}

// Spawn creates a library task without a scheduling point (usable from
// timer callbacks, which run in kernel context).
//
//go:norace
func Spawn(site string, f func()) {
	k := K
	t := k.newTask(site, false)
	go k.taskMain(t, f)
}

// GoH starts a harness task.
//
//go:norace
func GoH(name string, f func()) *Task {
	k := K
	t := k.newTask(name, true)
	go k.taskMain(t, f)
	k.step(KGo)
	k.reschedule(false)
	return t
}

// Join blocks until t has exited.
//
//go:norace
func Join(t *Task) {
	for t.state != stDone {
		Block(t)
	}
	RaceAcquire(unsafe.Pointer(&t.joinTok))
}

//go:norace
func Done(t *Task) bool { return t.state == stDone }

// WaitIdle returns once no other task is runnable (every other task is done
// or blocked on a lock, channel or timer): kernel-level quiescence.
//
//go:norace
func WaitIdle() {
	k := K
	for {
		others := false
		for _, t := range k.tasks {
			if t != k.cur && t.state == stRunnable {
				others = true
				break
			}
		}
		if !others {
			return
		}
		Gosched()
	}
}

// WaitQuiescent returns once no other task is runnable AND no one-shot timer
// (a sleeping stub, a stalled task) is pending: whatever is still parked then
// stays parked until somebody else acts.
//
//go:norace
func WaitQuiescent() {
	k := K
	for {
		WaitIdle()
		next := int64(-1)
		for _, tm := range k.timers {
			if !tm.stopped && tm.harness && (next < 0 || tm.due < next) {
				next = tm.due
			}
		}
		for _, t := range k.tasks {
			if t != k.cur && t.state == stRunnable && t.stallTo > k.now && (next < 0 || t.stallTo < next) {
				next = t.stallTo
			}
		}
		if next < 0 {
			return
		}
		d := next - k.now
		if d < 1 {
			d = 1
		}
		Sleep(d)
	}
}

// Now returns simulated nanoseconds since the simulation epoch.
//
//go:norace
func Now() int64 {
	if k := K; k != nil {
		return k.now
	}
	return 0
}

// Stamp returns a fresh global event sequence number.
//
//go:norace
func Stamp() uint64 {
	k := K
	k.seq++
	return k.seq
}

//go:norace
func Steps() int64 { return K.steps }

// StepsPeek / CurNamePeek are read by a watchdog goroutine outside the
// simulation (racy by design: they only feed a "no progress" heuristic).
//
//go:norace
func StepsPeek() int64 {
	k := K
	if k == nil {
		return -1
	}
	return k.steps
}

//go:norace
func CurNamePeek() string {
	k := K
	if k == nil || k.cur == nil {
		return "?"
	}
	return k.cur.Name + " " + k.cur.Label
}

// Sleep blocks the current task for d simulated nanoseconds.
//
//go:norace
func Sleep(d int64) {
	k := K
	if d <= 0 {
		Yield(KClock)
		return
	}
	cur := k.cur
	fired := false
	tm := k.addTimer(k.now+d, func() { fired = true; k.notify(cur) })
	// a sleeping task will run again on its own: never part of a no-progress verdict
	tm.harness = true
	for !fired {
		Block(cur)
	}
}

// AdvanceTime jumps the simulated clock forward by d (clock-jump fault).
//
//go:norace
func AdvanceTime(d int64) {
	k := K
	k.now += d
	k.fireTimers()
}

//go:norace
func SetLabel(s string) {
	if k := K; k != nil {
		k.cur.Label = s
	}
}

//go:norace
func Cur() *Task { return K.cur }

//go:norace
func CurID() int {
	if k := K; k != nil {
		return k.cur.ID
	}
	return -1
}

//go:norace
func Probe(name string) {
	if k := K; k != nil {
		k.probes.add(name, 1)
	}
}

//go:norace
func ProbeN(name string, n int) {
	if k := K; k != nil {
		k.probes.add(name, n)
	}
}

//go:norace
func Fault(name string) {
	if k := K; k != nil {
		k.faults.add(name, 1)
	}
}

// MiscRng is the stream for in-run choices that are neither scheduling nor
// drift (pool behaviour, Fastrand, select order, stub decisions).
//
//go:norace
func MiscRng() *Rng { return K.misc }

// Rand32 replaces xruntime.Fastrand.
//
//go:norace
func Rand32() uint32 {
	if k := K; k != nil {
		return uint32(k.misc.Uint64())
	}
	return passRand32()
}

//go:norace
func Cfg() *Config { return &K.cfg }

// StallTask makes t ineligible for d simulated nanoseconds (a descheduled thread).
//
//go:norace
func StallTask(t *Task, d int64) {
	k := K
	if t.stallTo < k.now+d {
		t.stallTo = k.now + d
	}
}

//go:norace
func FindTasks(match func(*Task) bool) []*Task {
	var out []*Task
	for _, t := range K.tasks {
		if match(t) {
			out = append(out, t)
		}
	}
	return out
}

//go:norace
func (k *Kernel) taskInfos() []TaskInfo {
	out := make([]TaskInfo, 0, len(k.tasks))
	for _, t := range k.tasks {
		st := "runnable"
		if t.state == stBlocked {
			st = "blocked"
		} else if t.state == stDone {
			st = "done"
		}
		w := ""
		for _, x := range t.keys {
			w += keyString(x) + " "
		}
		out = append(out, TaskInfo{ID: t.ID, Name: t.Name, Harness: t.Harness, Label: t.Label, State: st, WaitOn: w})
	}
	return out
}

//go:norace
func Tasks() []TaskInfo { return K.taskInfos() }

// OnRelease registers a monitor run right after obj (a shim mutex) is
// released, in the releasing task, before any other task can run.
//
//go:norace
func OnRelease(obj any, f func()) {
	k := K
	k.monitors = append(k.monitors, monitor{obj, f})
}

//go:norace
func Released(obj any) {
	k := K
	if k == nil || len(k.monitors) == 0 {
		return
	}
	for _, m := range k.monitors {
		if m.obj == obj {
			m.f()
		}
	}
}

// OnStep registers a hook run at every scheduling point (fault triggers).
//
//go:norace
func OnStep(f func()) { K.stepHooks = append(K.stepHooks, f) }

// ---- timers ----

//go:norace
func (k *Kernel) addTimer(due int64, fn func()) *timer {
	k.timerSeq++
	tm := &timer{due: due, seq: k.timerSeq, fn: fn}
	k.timers = append(k.timers, tm)
	return tm
}

// Timer is a handle on a pending kernel timer.
type Timer struct{ t *timer }

// AddTimer schedules fn (kernel context: it may only Notify / TimerSend) at
// simulated time due.
//
//go:norace
func AddTimer(due int64, fn func()) Timer {
	return Timer{K.addTimer(due, fn)}
}

// AddOneShot is AddTimer for a timer that fires exactly once (Sleep, After,
// AfterFunc): while one is pending the run can still make progress, so it
// never takes part in a no-progress verdict (periodic tickers do).
//
//go:norace
func AddOneShot(due int64, fn func()) Timer {
	tm := K.addTimer(due, fn)
	tm.harness = true
	return Timer{tm}
}

//go:norace
func (t Timer) Stop() bool {
	if t.t == nil || t.t.stopped {
		return false
	}
	t.t.stopped = true
	return true
}

//go:norace
func (k *Kernel) fireTimers() {
	for {
		var best *timer
		bi := -1
		w := 0
		for _, tm := range k.timers {
			if tm.stopped {
				continue
			}
			k.timers[w] = tm
			if tm.due <= k.now && (best == nil || tm.due < best.due || (tm.due == best.due && tm.seq < best.seq)) {
				best = tm
				bi = w
			}
			w++
		}
		k.timers = k.timers[:w]
		if best == nil {
			return
		}
		best.stopped = true
		_ = bi
		best.fn()
	}
}

//go:norace
func anyString(v any) string {
	switch x := v.(type) {
	case string:
		return x
	case error:
		return x.Error()
	}
	return "non-string panic value"
}

//go:norace
func keyString(v any) string {
	switch x := v.(type) {
	case chanKey:
		return "chan"
	case *Task:
		return "task:" + x.Name
	case interface{ SimName() string }:
		return x.SimName()
	}
	return "obj"
}

type monitor struct {
	obj any
	f   func()
}

// counters is a tiny assoc list: Go maps report to the race detector even
// from //go:norace callers, so the kernel does not share maps between tasks.
type counters struct {
	names []string
	vals  []int
}

//go:norace
func (c *counters) add(name string, n int) {
	for i, x := range c.names {
		if x == name {
			c.vals[i] += n
			return
		}
	}
	c.names = append(c.names, name)
	c.vals = append(c.vals, n)
}

//go:norace
func (c *counters) toMap() map[string]int {
	m := map[string]int{}
	for i, x := range c.names {
		m[x] = c.vals[i]
	}
	return m
}
