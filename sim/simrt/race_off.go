//go:build !race

package simrt

import "unsafe"

const RaceEnabled = false

func raceDisable() {}
func raceEnable()  {}

func RaceAcquire(p unsafe.Pointer)      {}
func RaceRelease(p unsafe.Pointer)      {}
func RaceReleaseMerge(p unsafe.Pointer) {}
