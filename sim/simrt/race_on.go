//go:build race

package simrt

import (
	"runtime"
	"unsafe"
)

const RaceEnabled = true

//go:norace
func raceDisable() { runtime.RaceDisable() }

//go:norace
func raceEnable() { runtime.RaceEnable() }

// RaceAcquire / RaceRelease expose the detector's annotation API to the shims.
//
//go:norace
func RaceAcquire(p unsafe.Pointer) { runtime.RaceAcquire(p) }

//go:norace
func RaceRelease(p unsafe.Pointer) { runtime.RaceRelease(p) }

//go:norace
func RaceReleaseMerge(p unsafe.Pointer) { runtime.RaceReleaseMerge(p) }
