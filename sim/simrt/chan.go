package simrt

import (
	"fmt"
	"math/rand/v2"
	"reflect"
	"unsafe"
)

//go:norace
func sprint(v any) string { return fmt.Sprint(v) }

//go:norace
func passRand32() uint32 { return rand.Uint32() }

type chanKey uintptr

//go:norace
func keyOf[T any](ch <-chan T) uintptr { return *(*uintptr)(unsafe.Pointer(&ch)) }

// rendezvous is the side table of an unbuffered channel: a try-send can never
// meet a try-receive, so unbuffered channels are modelled here.
type rendezvous struct {
	ckey   uintptr
	sendq  []*waiter
	recvq  []*waiter
	closed bool
}

type waiter struct {
	task  *Task
	c     Case
	idx   int
	done  bool
	group *waitGroup
}

// waitGroup ties together the waiters a single Select registered.
type waitGroup struct {
	fired int
	ws    []*waiter
}

// Case is one communication of a Select.
type Case interface {
	poll(k *Kernel) bool
	key() uintptr
	unbuffered() bool
	isSend() bool
	reflectCase() reflect.SelectCase
	setRecv(v reflect.Value, ok bool)
	addr() unsafe.Pointer
}

type RecvCase[T any] struct {
	ch  <-chan T
	Val T
	Ok  bool
}

type SendCase[T any] struct {
	ch chan<- T
	v  T
}

//go:norace
func CaseRecv[T any](ch <-chan T) *RecvCase[T] { return &RecvCase[T]{ch: ch} }

//go:norace
func CaseSend[T any](ch chan<- T, v T) *SendCase[T] { return &SendCase[T]{ch: ch, v: v} }

//go:norace
func (c *RecvCase[T]) key() uintptr     { return keyOf(c.ch) }
func (c *RecvCase[T]) unbuffered() bool { return c.ch != nil && cap(c.ch) == 0 }
func (c *RecvCase[T]) isSend() bool     { return false }

//go:norace
func (c *RecvCase[T]) addr() unsafe.Pointer { return unsafe.Pointer(c) }

//go:norace
func (c *SendCase[T]) addr() unsafe.Pointer { return unsafe.Pointer(c) }

//go:norace
func (c *RecvCase[T]) reflectCase() reflect.SelectCase {
	return reflect.SelectCase{Dir: reflect.SelectRecv, Chan: reflect.ValueOf(c.ch)}
}

//go:norace
func (c *RecvCase[T]) setRecv(v reflect.Value, ok bool) {
	c.Ok = ok
	if ok {
		c.Val = v.Interface().(T)
	}
}

//go:norace
func (c *RecvCase[T]) poll(k *Kernel) bool {
	if c.ch == nil {
		return false
	}
	// real try-receive: succeeds on a buffered value or on a closed channel
	select {
	case v, ok := <-c.ch:
		c.Val, c.Ok = v, ok
		if ok {
			k.notify(chanKey(keyOf(c.ch)))
		}
		return true
	default:
	}
	if cap(c.ch) != 0 {
		return false
	}
	r := k.getRdv(keyOf(c.ch), false)
	if r == nil || len(r.sendq) == 0 {
		return false
	}
	w := r.sendq[0]
	sc, ok := w.c.(*SendCase[T])
	if !ok {
		panic("simrt: rendezvous type mismatch")
	}
	RaceAcquire(unsafe.Pointer(sc))
	c.Val, c.Ok = sc.v, true
	RaceRelease(unsafe.Pointer(sc))
	k.complete(w)
	return true
}

//go:norace
func (c *SendCase[T]) key() uintptr     { return *(*uintptr)(unsafe.Pointer(&c.ch)) }
func (c *SendCase[T]) unbuffered() bool { return c.ch != nil && cap(c.ch) == 0 }
func (c *SendCase[T]) isSend() bool     { return true }

//go:norace
func (c *SendCase[T]) reflectCase() reflect.SelectCase {
	return reflect.SelectCase{Dir: reflect.SelectSend, Chan: reflect.ValueOf(c.ch), Send: reflect.ValueOf(&c.v).Elem()}
}

//go:norace
func (c *SendCase[T]) setRecv(v reflect.Value, ok bool) {}

//go:norace
func (c *SendCase[T]) poll(k *Kernel) bool {
	if c.ch == nil {
		return false
	}
	if cap(c.ch) != 0 {
		// real try-send (panics on a closed channel, as the real send would)
		select {
		case c.ch <- c.v:
			k.notify(chanKey(c.key()))
			return true
		default:
			return false
		}
	}
	r := k.getRdv(c.key(), false)
	if r != nil && r.closed {
		panic("send on closed channel")
	}
	if r == nil || len(r.recvq) == 0 {
		return false
	}
	w := r.recvq[0]
	rc, ok := w.c.(*RecvCase[T])
	if !ok {
		panic("simrt: rendezvous type mismatch")
	}
	RaceAcquire(unsafe.Pointer(rc))
	rc.Val, rc.Ok = c.v, true
	RaceRelease(unsafe.Pointer(rc))
	k.complete(w)
	return true
}

//go:norace
func (k *Kernel) getRdv(key uintptr, create bool) *rendezvous {
	for _, r := range k.rdv {
		if r.ckey == key {
			return r
		}
	}
	if !create {
		return nil
	}
	r := &rendezvous{ckey: key}
	k.rdv = append(k.rdv, r)
	return r
}

// complete marks waiter w (a task parked in Select) as served.
//
//go:norace
func (k *Kernel) complete(w *waiter) {
	w.done = true
	w.group.fired = w.idx
	for _, x := range w.group.ws {
		k.unregister(x)
	}
	if w.task.state == stBlocked {
		w.task.state = stRunnable
	}
}

//go:norace
func (k *Kernel) unregister(w *waiter) {
	r := k.getRdv(w.c.key(), false)
	if r == nil {
		return
	}
	q := &r.recvq
	if w.c.isSend() {
		q = &r.sendq
	}
	for i, x := range *q {
		if x == w {
			// manual shift: copy/append-slice report to the race detector even from norace code
			a := *q
			for j := i; j+1 < len(a); j++ {
				a[j] = a[j+1]
			}
			a[len(a)-1] = nil
			*q = a[:len(a)-1]
			break
		}
	}
}

// Select performs one select statement. It returns the index of the case that
// fired, or -1 for default.
//
//go:norace
func Select(hasDefault bool, cases ...Case) int {
	k := K
	if k == nil {
		return passSelect(hasDefault, cases)
	}
	k.step(KSelect)
	k.reschedule(false)
	n := len(cases)
	for {
		// poll in a seeded order; draw only when more than one case exists
		start := 0
		if n > 1 {
			start = k.misc.Intn(n)
		}
		for i := 0; i < n; i++ {
			idx := (start + i) % n
			if cases[idx].poll(k) {
				return idx
			}
		}
		if hasDefault {
			return -1
		}
		// register on unbuffered channels, block on all channel keys
		g := &waitGroup{fired: -1}
		keys := make([]any, 0, n+1)
		for i, c := range cases {
			if c.key() == 0 {
				continue
			}
			keys = append(keys, chanKey(c.key()))
			if c.unbuffered() {
				w := &waiter{task: k.cur, c: c, idx: i, group: g}
				RaceRelease(c.addr())
				g.ws = append(g.ws, w)
				r := k.getRdv(c.key(), true)
				if c.isSend() {
					r.sendq = append(r.sendq, w)
				} else {
					r.recvq = append(r.recvq, w)
				}
			}
		}
		if len(keys) == 0 {
			// select with only nil channels: blocks for ever
			keys = append(keys, g)
		}
		for _, c := range cases {
			if c.isSend() && !c.unbuffered() && c.key() != 0 {
				k.probes.add("chan.send-blocked-on-full-queue", 1)
				break
			}
		}
		Block(keys...)
		if g.fired >= 0 {
			RaceAcquire(cases[g.fired].addr())
			return g.fired
		}
		for _, w := range g.ws {
			k.unregister(w)
		}
	}
}

//go:norace
func passSelect(hasDefault bool, cases []Case) int {
	rc := make([]reflect.SelectCase, 0, len(cases)+1)
	for _, c := range cases {
		rc = append(rc, c.reflectCase())
	}
	if hasDefault {
		rc = append(rc, reflect.SelectCase{Dir: reflect.SelectDefault})
	}
	i, v, ok := reflect.Select(rc)
	if hasDefault && i == len(cases) {
		return -1
	}
	cases[i].setRecv(v, ok)
	return i
}

//go:norace
func Send[T any](ch chan<- T, v T) {
	if K == nil {
		ch <- v
		return
	}
	Select(false, CaseSend(ch, v))
}

//go:norace
func Recv[T any](ch <-chan T) T {
	if K == nil {
		return <-ch
	}
	c := CaseRecv(ch)
	Select(false, c)
	return c.Val
}

//go:norace
func Recv2[T any](ch <-chan T) (T, bool) {
	if K == nil {
		v, ok := <-ch
		return v, ok
	}
	c := CaseRecv(ch)
	Select(false, c)
	return c.Val, c.Ok
}

//go:norace
func Close[T any](ch chan T) {
	close(ch)
	k := K
	if k == nil {
		return
	}
	key := keyOf((<-chan T)(ch))
	if cap(ch) == 0 {
		k.getRdv(key, true).closed = true
	}
	k.notify(chanKey(key))
	Yield(KChan)
}

// TimerSend is the non-blocking send a runtime timer performs on a ticker or
// timer channel (kernel context; invisible to the race detector, like the
// runtime's own timer goroutine).
//
//go:norace
func TimerSend[T any](ch chan T, v T) {
	raceDisable()
	select {
	case ch <- v:
	default:
	}
	raceEnable()
	K.notify(chanKey(keyOf((<-chan T)(ch))))
}

// MapOrder returns the keys of m in a canonical order (sorted), optionally
// permuted by the run's seed: map iteration order is a simulator decision.
//
//go:norace
func MapOrder[K2 comparable, V any](m map[K2]V) []K2 {
	keys := make([]K2, 0, len(m))
	for k := range m {
		keys = append(keys, k)
	}
	if K == nil {
		return keys
	}
	sortKeys(keys)
	if K.cfg.ShuffleMaps {
		for i := len(keys) - 1; i > 0; i-- {
			j := K.misc.Intn(i + 1)
			keys[i], keys[j] = keys[j], keys[i]
		}
	}
	return keys
}

//go:norace
func sortKeys[K2 comparable](keys []K2) {
	if len(keys) < 2 {
		return
	}
	less := lessFor(keys)
	// insertion sort for tiny inputs, else simple quicksort via sort-free heap
	n := len(keys)
	if n < 12 {
		for i := 1; i < n; i++ {
			for j := i; j > 0 && less(keys[j], keys[j-1]); j-- {
				keys[j], keys[j-1] = keys[j-1], keys[j]
			}
		}
		return
	}
	heapSort(keys, less)
}

//go:norace
func heapSort[K2 any](a []K2, less func(x, y K2) bool) {
	n := len(a)
	sift := func(lo, hi int) {
		root := lo
		for {
			child := 2*root + 1
			if child >= hi {
				return
			}
			if child+1 < hi && less(a[child], a[child+1]) {
				child++
			}
			if !less(a[root], a[child]) {
				return
			}
			a[root], a[child] = a[child], a[root]
			root = child
		}
	}
	for i := (n - 1) / 2; i >= 0; i-- {
		sift(i, n)
	}
	for i := n - 1; i >= 0; i-- {
		a[0], a[i] = a[i], a[0]
		sift(0, i)
	}
}

//go:norace
func lessFor[K2 comparable](keys []K2) func(x, y K2) bool {
	var z K2
	switch any(z).(type) {
	case int:
		return func(x, y K2) bool { return any(x).(int) < any(y).(int) }
	case int64:
		return func(x, y K2) bool { return any(x).(int64) < any(y).(int64) }
	case uint64:
		return func(x, y K2) bool { return any(x).(uint64) < any(y).(uint64) }
	case string:
		return func(x, y K2) bool { return any(x).(string) < any(y).(string) }
	}
	return func(x, y K2) bool {
		vx, vy := reflect.ValueOf(x), reflect.ValueOf(y)
		switch vx.Kind() {
		case reflect.Int, reflect.Int8, reflect.Int16, reflect.Int32, reflect.Int64:
			return vx.Int() < vy.Int()
		case reflect.Uint, reflect.Uint8, reflect.Uint16, reflect.Uint32, reflect.Uint64, reflect.Uintptr:
			return vx.Uint() < vy.Uint()
		case reflect.String:
			return vx.String() < vy.String()
		}
		return sprint(x) < sprint(y)
	}
}

// SortedKeys returns the keys of m in canonical order without drawing from
// the PRNG (white-box snapshots).
//
//go:norace
func SortedKeys[K2 comparable, V any](m map[K2]V) []K2 {
	keys := make([]K2, 0, len(m))
	for k := range m {
		keys = append(keys, k)
	}
	sortKeys(keys)
	return keys
}
