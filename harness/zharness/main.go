// zharness is the simulation worker: for a property and a range of run
// indices it generates a scenario from the seed, runs it under the kernel on
// the rewritten library, evaluates the property's oracles and prints one JSON
// line per run.
package main

import (
	"bufio"
	"encoding/json"
	"flag"
	"fmt"
	"os"
	"runtime"
	"sort"
	"strings"
	"time"

	"verifsim/simrt"
)

type propDef struct {
	gen   func(g *gen, tier string) *Scenario
	setup func(env *simEnv)
	check func(rd *RunData) []Violation
	// custom: properties that do not use the scenario runner (component sims)
	custom func(seed uint64, tier string) *Outcome
}

var props = map[string]*propDef{}

type Outcome struct {
	Seed       uint64         `json:"seed"`
	Index      int64          `json:"idx"`
	Prop       string         `json:"prop"`
	Family     string         `json:"family"`
	Verdict    string         `json:"verdict"` // ok | violation | inconclusive
	Kernel     string         `json:"kernel"`  // kernel verdict
	Violations []Violation    `json:"violations,omitempty"`
	Hash       uint64         `json:"hash"`
	Steps      int64          `json:"steps"`
	Switches   int64          `json:"switches"`
	SimNanos   int64          `json:"simnanos"`
	Tasks      int            `json:"tasks"`
	Probes     map[string]int `json:"probes,omitempty"`
	Faults     map[string]int `json:"faults,omitempty"`
	Nontrivial bool           `json:"nontrivial"`
	Evals      int64          `json:"evals,omitempty"` // sub-cases inside this run (fault enumeration)
	Note       string         `json:"note,omitempty"`
	Scenario   *Scenario      `json:"scenario,omitempty"`
	History    []string       `json:"history,omitempty"`
	Extra      map[string]any `json:"extra,omitempty"`
}

func seedFor(base uint64, idx int64) uint64 {
	return simrt.Derive(base*0x9e3779b97f4a7c15+uint64(idx), 77)
}

var (
	curSeed     uint64
	curIdx      int64
	curStride   int64 = 1
	curScenario *Scenario
)

func runOne(prop string, pd *propDef, seed uint64, idx int64, tier string, sc *Scenario) (*Outcome, *RunData) {
	curSeed, curIdx, curScenario = seed, idx, sc
	if pd.custom != nil && sc == nil {
		o := pd.custom(seed, tier)
		o.Seed, o.Index, o.Prop = seed, idx, prop
		return o, nil
	}
	if sc == nil {
		g := newGen(seed)
		sc = pd.gen(g, tier)
		sc.Prop = prop
		sc.Seed = seed
		curScenario = sc
		if tier == "thorough" && sc.Runner == "" && prop != "C09" && prop != "C12" && g.pct(10) {
			// thorough tier: every atomic operation of every file is a scheduling point in a tenth of the runs
			sc.Sim.AtomicAll = true
			if sc.Sim.MaxSteps == 0 {
				sc.Sim.MaxSteps = 2000000
			}
		}
	}
	postProbes = map[string]int{}
	rd := runScenario(sc, pd.setup)
	o := &Outcome{Seed: seed, Index: idx, Prop: prop, Family: sc.Family, Kernel: rd.Res.Verdict,
		Hash: rd.Res.Hash, Steps: rd.Res.Steps, Switches: rd.Res.Switches, SimNanos: rd.Res.Now - sc.Sim.StartNanos,
		Tasks: rd.Res.NTasks, Probes: rd.Res.Probes, Faults: rd.Res.Faults}
	// the property's history oracle runs first: it may refine the signatures of
	// violations raised while the run proceeded (rd.Monitor) with facts that are
	// only known afterwards
	checked := pd.check(rd)
	vs := append([]Violation(nil), rd.Monitor...)
	vs = append(vs, checked...)
	// kernel-level verdicts every property reports: an unexpected panic
	if rd.Res.Verdict == "panic" {
		vs = append(vs, Violation{prop + "/panic/" + panicSite(rd), rd.Res.Detail})
	}
	for _, r := range rd.Recs {
		if r.Panic != "" && !strings.Contains(r.Panic, "injected loader panic") {
			vs = append(vs, Violation{prop + "/panic/call=" + r.Op.Kind, "API call panicked: " + firstLine(r.Panic)})
		}
	}
	for k, v := range postProbes {
		if o.Probes == nil {
			o.Probes = map[string]int{}
		}
		o.Probes[k] += v
	}
	o.Violations = dedupViolations(vs)
	switch {
	case len(o.Violations) > 0:
		o.Verdict = "violation"
	case rd.Res.Verdict == "budget":
		o.Verdict = "inconclusive"
	case rd.Res.Verdict == "deadlock" || rd.Res.Verdict == "no-progress":
		// some call never returned and this property's oracle had nothing to say about it
		// (C10, C13 and C20 turn these verdicts into violations themselves): never "ok" -
		// the orchestrator reports such runs loudly (exit 2)
		o.Verdict = "inconclusive"
	default:
		o.Verdict = "ok"
	}
	o.Nontrivial = rd.Res.Switches > 0 && len(rd.Recs) > 0
	if rd.Nontrivial != 0 {
		o.Nontrivial = rd.Nontrivial > 0
	}
	o.Evals = rd.Evals
	o.Extra = rd.Extra
	if rd.Checked > 0 || rd.Inconclusive > 0 {
		if o.Probes == nil {
			o.Probes = map[string]int{}
		}
		o.Probes["histories.checked"] = rd.Checked
		o.Probes["histories.inconclusive"] = rd.Inconclusive
	}
	return o, rd
}

func panicSite(rd *RunData) string {
	for _, t := range rd.Res.Tasks {
		_ = t
	}
	d := rd.Res.Detail
	if i := strings.Index(d, " panicked"); i > 0 {
		d = d[:i]
	}
	return strings.ReplaceAll(strings.TrimPrefix(d, "task "), " ", "_")
}

func dedupViolations(vs []Violation) []Violation {
	seen := map[string]bool{}
	var out []Violation
	for _, v := range vs {
		if !seen[v.Sig] {
			seen[v.Sig] = true
			out = append(out, v)
		}
	}
	sort.SliceStable(out, func(i, j int) bool { return out[i].Sig < out[j].Sig })
	return out
}

func main() {
	prop := flag.String("prop", "", "property id")
	tier := flag.String("tier", "quick", "quick|thorough")
	base := flag.Uint64("seed", 1, "VERIF_SEED")
	from := flag.Int64("from", 0, "first run index")
	count := flag.Int64("count", 100, "number of runs (upper bound)")
	stride := flag.Int64("stride", 1, "index stride (worker fan-out)")
	budget := flag.Duration("budget", 0, "wall-clock budget for this worker (0: none)")
	out := flag.String("out", "", "output file (JSON lines); default stdout")
	replay := flag.String("replay", "", "replay a scenario file instead of generating")
	maxGor := flag.Int("maxgoroutines", 4000, "recycle the process when this many goroutines have leaked")
	full := flag.Bool("full", false, "include scenario and history in every outcome")
	samples := flag.Int("samples", 3, "include scenario+history for the first n runs")
	histMax := flag.Int("histmax", 200, "history lines kept per outcome")
	minSched := flag.String("minsched", "", "minimise the schedule of this replay file (scenario + signature) and rewrite it with the recorded choices")
	flag.BoolVar(&debugPolicy, "debug", false, "replay: record the policy state after every policy step in the history")
	procs := flag.Int("procs", 2, "GOMAXPROCS of this worker (the simulation runs one task at a time; results must not depend on it)")
	flag.Parse()
	runtime.GOMAXPROCS(*procs)
	pd := props[*prop]
	if pd == nil {
		fmt.Fprintf(os.Stderr, "unknown property %q\n", *prop)
		os.Exit(2)
	}
	if *prop == "C07" {
		// C07 includes "eviction always terminates": a task that stays between two scheduling points
		// for 45 s of real time (a policy step takes microseconds) is reported, the process ends
		go func() {
			last, since := int64(-1), time.Now()
			for {
				time.Sleep(3 * time.Second)
				cur := simrt.StepsPeek()
				if cur < 0 || cur != last {
					last, since = cur, time.Now()
					continue
				}
				if time.Since(since) > 45*time.Second {
					o := &Outcome{Seed: curSeed, Index: curIdx, Prop: "C07", Family: "stuck", Verdict: "violation", Kernel: "stuck", Nontrivial: true,
						Violations: []Violation{{"C07/no-termination/task-spinning-without-scheduling-point", "a policy step did not finish within 45 s of real time (task " + simrt.CurNamePeek() + "): eviction / resizing does not terminate"}}, Scenario: curScenario}
					b, _ := json.Marshal(o)
					os.Stdout.Write(append(b, '\n'))
					fmt.Fprintf(os.Stderr, "WORKER-DONE next=%d runs=%d\n", curIdx+curStride, 1)
					os.Exit(0)
				}
			}
		}()
	}
	w := bufio.NewWriter(os.Stdout)
	if *out != "" {
		f, err := os.Create(*out)
		if err != nil {
			fmt.Fprintln(os.Stderr, err)
			os.Exit(2)
		}
		defer f.Close()
		w = bufio.NewWriter(f)
	}
	defer w.Flush()
	enc := json.NewEncoder(w)

	if *minSched != "" {
		os.Exit(minimiseSchedule(*prop, pd, *minSched))
	}
	if *replay != "" {
		b, err := os.ReadFile(*replay)
		if err != nil {
			fmt.Fprintln(os.Stderr, err)
			os.Exit(2)
		}
		var rf ReplayFile
		if err := json.Unmarshal(b, &rf); err != nil {
			fmt.Fprintln(os.Stderr, err)
			os.Exit(2)
		}
		var o *Outcome
		var rd *RunData
		if rf.Scenario != nil {
			o, rd = runOne(*prop, pd, rf.Scenario.Seed, rf.Index, rf.Tier, rf.Scenario)
		} else {
			sd := rf.Seed
			if sd == 0 {
				sd = seedFor(rf.BaseSeed, rf.Index)
			}
			o, rd = runOne(*prop, pd, sd, rf.Index, rf.Tier, nil)
		}
		o.Scenario = rf.Scenario
		if rd != nil {
			o.History = renderHistory(rd, 4000)
		}
		enc.Encode(o)
		return
	}

	start := time.Now()
	done := int64(0)
	curStride = *stride
	for i := int64(0); i < *count; i++ {
		idx := *from + i**stride
		seed := seedFor(*base, idx)
		o, rd := runOne(*prop, pd, seed, idx, *tier, nil)
		if rd != nil && (*full || o.Verdict == "violation" || done < int64(*samples)) {
			o.Scenario = rd.Sc
			o.History = renderHistory(rd, *histMax)
		}
		enc.Encode(o)
		done++
		if *budget > 0 && time.Since(start) > *budget {
			break
		}
		if runtime.NumGoroutine() > *maxGor {
			break // leaked parked tasks: let the orchestrator start a fresh process
		}
	}
	w.Flush()
	fmt.Fprintf(os.Stderr, "WORKER-DONE next=%d runs=%d\n", *from+done**stride, done)
}

// ReplayFile is what a violation is reported as: scenario + seed is one
// exactly repeatable execution.
type ReplayFile struct {
	Property  string    `json:"property"`
	Tier      string    `json:"tier"`
	Seed      uint64    `json:"seed"`
	BaseSeed  uint64    `json:"base_seed,omitempty"` // VERIF_SEED; with Index it determines the run seed when Seed is 0
	Index     int64     `json:"index"`
	Build     string    `json:"build"`
	Signature string    `json:"signature"`
	Detail    string    `json:"detail"`
	Hash      uint64    `json:"hash"`
	Scenario  *Scenario `json:"scenario,omitempty"`
	Trace     []string  `json:"trace,omitempty"`
}


func outcomeHasSig(o *Outcome, sig string) bool {
	for _, v := range o.Violations {
		if v.Sig == sig {
			return true
		}
	}
	return false
}

// minimiseSchedule: record the scheduling choices of the failing run, then set
// as many of them as possible to 0 ("keep running the current task") while the
// same violation signature persists. Every candidate is one simulated run.
func minimiseSchedule(prop string, pd *propDef, file string) int {
	b, err := os.ReadFile(file)
	if err != nil {
		fmt.Fprintln(os.Stderr, err)
		return 2
	}
	var raw map[string]json.RawMessage
	var rf ReplayFile
	if json.Unmarshal(b, &raw) != nil || json.Unmarshal(b, &rf) != nil || rf.Scenario == nil {
		return 0 // nothing to minimise (component without a scenario, race report)
	}
	sc := rf.Scenario
	sig := rf.Signature
	recordChoices = true
	defer func() { recordChoices = false }()
	run := func(choices []int32, use bool) (*Outcome, []int32) {
		c := *sc
		c.Choices, c.UseChoices = choices, use
		o, rd := runOne(prop, pd, c.Seed, rf.Index, rf.Tier, &c)
		if rd == nil || rd.Res == nil {
			return o, nil
		}
		return o, rd.Res.Choices
	}
	if prop == "C12" || prop == "C09" || prop == "C11" {
		return 0 // one task does (nearly) all the work: there is no schedule to minimise, and a run takes seconds
	}
	o, rec := run(nil, false)
	if !outcomeHasSig(o, sig) || rec == nil || o.Steps > 300000 {
		return 0
	}
	cur := append([]int32(nil), rec...)
	if o2, _ := run(cur, true); !outcomeHasSig(o2, sig) {
		return 0 // replaying the recorded choices does not reproduce: keep the seed-only replay
	}
	tries, start := 0, time.Now()
	ok := func(c []int32) bool {
		if tries > 600 || time.Since(start) > 25*time.Second {
			return false
		}
		tries++
		o, _ := run(c, true)
		return outcomeHasSig(o, sig)
	}
	nonzero := func(c []int32) int {
		n := 0
		for _, x := range c {
			if x != 0 {
				n++
			}
		}
		return n
	}
	before := nonzero(cur)
	// 1. cut the tail: everything after position p becomes 0
	for p := len(cur) / 2; p > 0 && len(cur) > 0; p /= 2 {
		cand := append([]int32(nil), cur[:len(cur)-p]...)
		if ok(cand) {
			cur = cand
			p = len(cur) // restart with the shorter trace
		}
	}
	// 2. zero chunks of halving size
	for chunk := len(cur) / 2; chunk >= 1; chunk /= 2 {
		for at := 0; at+chunk <= len(cur); at += chunk {
			allZero := true
			for _, x := range cur[at : at+chunk] {
				if x != 0 {
					allZero = false
				}
			}
			if allZero {
				continue
			}
			cand := append([]int32(nil), cur...)
			for i := at; i < at+chunk; i++ {
				cand[i] = 0
			}
			if ok(cand) {
				cur = cand
			}
		}
	}
	for len(cur) > 0 && cur[len(cur)-1] == 0 {
		cur = cur[:len(cur)-1]
	}
	sc.Choices, sc.UseChoices = cur, true
	scb, _ := json.Marshal(sc)
	raw["scenario"] = scb
	note, _ := json.Marshal(fmt.Sprintf("schedule minimised: %d of %d scheduling choices differ from 'keep running the current task' (was %d of %d); %d candidate runs", nonzero(cur), len(rec), before, len(rec), tries))
	raw["schedule_note"] = note
	out, _ := json.MarshalIndent(raw, "", " ")
	if err := os.WriteFile(file, out, 0o644); err != nil {
		return 2
	}
	return 0
}
