package main

// mixParams drives the shared mixed-workload generator.
type mixParams struct {
	clients      [2]int
	ops          [2]int
	keys         int
	singleWriter bool // every key is written by one client only (readers are free)
	setPct       int
	getPct       int
	delPct       int
	rangePct     int
	waitPct      int
	viewPct      int // len / size / stats
	sleepPct     int
	ttlPct       int
	ttls         []int64
	costMax      int64
	costZeroPct  int // cost 0 => Cost function
	sleepMax     int64
	rangeStopPct int
	heavyPct     int   // percent of Sets that carry one of heavyCosts
	heavyCosts   []int64
}

func (g *gen) mixed(p mixParams) [][]Op {
	nc := g.rng(p.clients[0], p.clients[1])
	var out [][]Op
	for c := 0; c < nc; c++ {
		var ops []Op
		wkey := func() int {
			if !p.singleWriter {
				return g.n(p.keys)
			}
			// keys c, c+nc, c+2nc ... belong to client c
			per := (p.keys + nc - 1) / nc
			if per < 1 {
				per = 1
			}
			return c + nc*g.n(per)
		}
		rkey := func() int {
			if p.singleWriter {
				per := (p.keys + nc - 1) / nc
				if per < 1 {
					per = 1
				}
				return g.n(nc * per)
			}
			return g.n(p.keys)
		}
		total := p.setPct + p.getPct + p.delPct + p.rangePct + p.waitPct + p.viewPct + p.sleepPct
		for n := g.rng(p.ops[0], p.ops[1]); n > 0; n-- {
			x := g.n(total)
			switch {
			case x < p.setPct:
				op := Op{Kind: "set", Key: wkey(), Cost: 1}
				if p.costMax > 1 {
					op.Cost = int64(g.rng(1, int(p.costMax)))
				}
				if p.costZeroPct > 0 && g.pct(p.costZeroPct) {
					op.Cost = 0
				}
				if p.heavyPct > 0 && g.pct(p.heavyPct) {
					op.Cost = p.heavyCosts[g.n(len(p.heavyCosts))]
				}
				if p.ttlPct > 0 && g.pct(p.ttlPct) {
					op.TTL = p.ttls[g.n(len(p.ttls))]
				}
				ops = append(ops, op)
			case x < p.setPct+p.getPct:
				ops = append(ops, Op{Kind: "get", Key: rkey()})
			case x < p.setPct+p.getPct+p.delPct:
				ops = append(ops, Op{Kind: "del", Key: wkey()})
			case x < p.setPct+p.getPct+p.delPct+p.rangePct:
				op := Op{Kind: "range"}
				if g.pct(p.rangeStopPct) {
					op.N = g.rng(1, 3)
				}
				ops = append(ops, op)
			case x < p.setPct+p.getPct+p.delPct+p.rangePct+p.waitPct:
				ops = append(ops, Op{Kind: "wait"})
			case x < p.setPct+p.getPct+p.delPct+p.rangePct+p.waitPct+p.viewPct:
				ops = append(ops, Op{Kind: pick(g, "len", "size", "stats")})
			default:
				ops = append(ops, Op{Kind: "sleep", Dur: int64(g.rng(1, int(p.sleepMax/ms))) * ms})
			}
		}
		out = append(out, ops)
	}
	return out
}

// serializeWaits keeps at most one client calling Wait (avoids the known
// concurrent-Wait defect where a property is not about it).
func serializeWaits(clients [][]Op) {
	for c := 1; c < len(clients); c++ {
		for i := range clients[c] {
			if clients[c][i].Kind == "wait" {
				clients[c][i] = Op{Kind: "sleep", Dur: 1 * ms}
			}
		}
	}
}

var quiesce = []Op{{Kind: "waitidle"}, {Kind: "wait"}, {Kind: "waitidle"}, {Kind: "snap", Label: "final"}}
