package main

import (
	"fmt"
	"strings"
)

// C10 - every call terminates, also when racing Close; Close is final and leak-free.

func init() {
	props["C10"] = &propDef{gen: genC10, check: checkC10}
}

func genC10(g *gen, tier string) *Scenario {
	sc := &Scenario{Sim: g.sim(), Params: map[string]int64{}}
	kind := pick(g, "plain", "plain", "loading", "loading", "hybrid", "hybridloading")
	sc.Family = kind
	sc.Cache = g.cache(kind)
	sc.Cache.WriteChan = pick(g, 1, 1, 2, 4)
	sc.Cache.WriteBuf = pick(g, 1, 2, 4, 16)
	sc.Stubs.LoaderSlowPct = pick(g, 0, 30)
	sc.Stubs.LoaderSlowDur = int64(g.rng(1, 3000)) * ms
	sc.Stubs.ListenerSlowPct = pick(g, 0, 0, 20)
	sc.Stubs.ListenerSlowDur = int64(g.rng(1, 2000)) * ms
	// configurations: termination is claimed for all of them (the pool's documented
	// weakness is about accounting, not about blocking)
	sc.Cache.Pool = g.pct(30)
	sc.Cache.Doorkeeper = g.pct(15)
	if strings.HasPrefix(kind, "hybrid") {
		sc.Cache.Prob = pick(g, float32(1), 1, 0.5, 0)
		sc.Stubs.SecSlowPct = pick(g, 0, 30, 100)
		sc.Stubs.SecSlowDur = int64(g.rng(1, 2000)) * ms
		sc.Stubs.SecSetErrPct = pick(g, 0, 0, 25)
		if sc.Stubs.SecSetErrPct > 0 && g.pct(50) {
			sc.Cache.Reenter = true // the error handler uses the cache
		}
		sc.Stubs.SecGetErrPct = pick(g, 0, 0, 25)
		sc.Stubs.SecDelErrPct = pick(g, 0, 0, 25)
	}
	nc := g.rng(2, 5)
	if tier == "thorough" {
		nc = g.rng(2, 7)
	}
	keys := g.rng(2, 8)
	hybrid := strings.HasPrefix(kind, "hybrid")
	for c := 0; c < nc; c++ {
		var ops []Op
		for n := g.rng(2, 12); n > 0; n-- {
			x := g.n(100)
			switch {
			case x < 45:
				op := Op{Kind: "set", Key: g.n(keys), Cost: 1}
				if g.pct(20) {
					op.TTL = int64(g.rng(1, 5000)) * ms
				}
				ops = append(ops, op)
			case x < 70:
				ops = append(ops, Op{Kind: "get", Key: g.n(keys)})
			case x < 82:
				ops = append(ops, Op{Kind: "del", Key: g.n(keys)})
			case x < 88 && !hybrid:
				ops = append(ops, Op{Kind: "wait"})
			case x < 92 && !hybrid:
				ops = append(ops, Op{Kind: pick(g, "len", "range", "size")})
			default:
				ops = append(ops, Op{Kind: "sleep", Dur: int64(g.rng(1, 1500)) * ms})
			}
		}
		sc.Clients = append(sc.Clients, ops)
	}
	// the closer
	var closer []Op
	for n := g.rng(0, 4); n > 0; n-- {
		if g.pct(50) {
			closer = append(closer, Op{Kind: "sleep", Dur: int64(g.rng(0, 800)) * ms})
		} else {
			closer = append(closer, Op{Kind: "set", Key: g.n(keys), Cost: 1})
		}
	}
	closer = append(closer, Op{Kind: "close"})
	sc.Clients = append(sc.Clients, closer)
	if g.pct(20) {
		// a second Close: overlapping the first one (which may be held up at a shard or at the
		// policy mutex by a slow loader, listener or secondary store), or after it. Finality
		// counts from the first Close that returns, whichever it is
		sc.Family += ",two-closes"
		var c2 []Op
		if g.pct(60) {
			c2 = append(c2, Op{Kind: "sleep", Dur: int64(g.rng(0, 1600)) * ms})
		}
		c2 = append(c2, Op{Kind: "close"})
		for n := g.rng(0, 3); n > 0; n-- {
			c2 = append(c2, pick(g, Op{Kind: "get", Key: g.n(keys)}, Op{Kind: "set", Key: g.n(keys), Cost: 1}, Op{Kind: "close"}))
		}
		sc.Clients = append(sc.Clients, c2)
	}
	// epilogue: issued by the root after every client has returned, i.e. after Close returned
	ep := []Op{{Kind: "get", Key: 0}, {Kind: "set", Key: 0, Cost: 1}, {Kind: "get", Key: 0}, {Kind: "del", Key: 1}}
	if !hybrid {
		ep = append(ep, Op{Kind: "len"}, Op{Kind: "range"}, Op{Kind: "wait"})
	}
	ep = append(ep, Op{Kind: "get", Key: keys + 1}, Op{Kind: "waitidle"})
	sc.Epilogue = ep
	return sc
}

func checkC10(rd *RunData) []Violation {
	var vs []Violation
	var closeRec *Rec
	// the Close that returned first (finality counts from there); if none returned, the first invoked
	for i := range rd.Recs {
		r := &rd.Recs[i]
		if r.Op.Kind != "close" {
			continue
		}
		switch {
		case closeRec == nil:
			closeRec = r
		case closeRec.Open && (!r.Open || r.Inv < closeRec.Inv):
			closeRec = r
		case !closeRec.Open && !r.Open && r.Ret < closeRec.Ret:
			closeRec = r
		}
	}
	phase := func(r Rec) string {
		switch {
		case closeRec == nil:
			return "no-close"
		case closeRec.Open && r.Inv > closeRec.Inv:
			return "racing-close"
		case !closeRec.Open && r.Inv > closeRec.Ret:
			return "after-close"
		case r.Inv < closeRec.Inv && closeRec.Open:
			return "racing-close"
		case r.Inv < closeRec.Ret:
			return "racing-close"
		}
		return "after-close"
	}
	if closeRec != nil {
		for _, r := range rd.Recs {
			if r.Op.Kind != "close" && r.Op.Kind != "sleep" && r.Inv < closeRec.Inv && (r.Open || r.Ret > closeRec.Inv) {
				probe("c10.in-flight-at-close." + r.Op.Kind)
			}
			if !closeRec.Open && r.Inv > closeRec.Ret && r.Client == -1 {
				probe("c10.epilogue-call-after-close")
			}
		}
		for _, l := range rd.Loader {
			if l.Start < closeRec.Inv && (l.End == 0 || l.End > closeRec.Inv) {
				probe("c10.loader-running-at-close")
			}
		}
	}
	if rd.Res.Verdict == "deadlock" || rd.Res.Verdict == "no-progress" {
		for _, r := range blockedCalls(rd) {
			if r.Op.Kind == "waitidle" || r.Op.Kind == "sleep" {
				continue
			}
			vs = append(vs, Violation{fmt.Sprintf("C10/blocked-forever/call=%s,%s", r.Op.Kind, phase(r)),
				fmt.Sprintf("%s by client %d (inv=%d) never returns: kernel verdict %s (%s)", r.Op, r.Client, r.Inv, rd.Res.Verdict, rd.Res.Detail)})
		}
		return vs
	}
	if closeRec == nil || closeRec.Open {
		return vs
	}
	loading := strings.Contains(rd.Sc.Cache.Kind, "loading")
	for _, r := range rd.Recs {
		if r.Inv < closeRec.Ret || r.Open {
			continue
		}
		switch r.Op.Kind {
		case "get":
			if loading {
				if r.Err != "cache is closed" {
					vs = append(vs, Violation{"C10/not-final/loading-get-after-close", fmt.Sprintf("%s invoked after Close returned: got v=%d hit=%v err=%q, want the cache-closed error", r.Op, r.Val, r.Ok, r.Err)})
				}
			} else if r.Ok {
				vs = append(vs, Violation{"C10/not-final/get-hit-after-close", fmt.Sprintf("%s invoked after Close returned hit value %d", r.Op, r.Val)})
			}
		case "len":
			if r.N != 0 {
				vs = append(vs, Violation{"C10/not-final/len-after-close", fmt.Sprintf("Len() = %d after Close returned", r.N)})
			}
		case "range":
			if len(r.Pairs) != 0 {
				vs = append(vs, Violation{"C10/not-final/range-after-close", fmt.Sprintf("Range visited %v after Close returned", r.Pairs)})
			}
		}
	}
	for _, l := range rd.Loader {
		if l.Start > closeRec.Ret {
			vs = append(vs, Violation{"C10/not-final/loader-run-after-close", fmt.Sprintf("loader invoked for key %d after Close returned", l.Key)})
		}
	}
	// leak-freedom: every task the library started has exited
	for _, t := range rd.Res.Tasks {
		if !t.Harness && t.State != "done" {
			vs = append(vs, Violation{"C10/leaked-task/" + t.Name + "," + rd.Sc.Cache.Kind, fmt.Sprintf("library goroutine started at %s is still %s (waiting on %s) after Close returned and the cache went idle", t.Name, t.State, t.WaitOn)})
		}
	}
	return vs
}
