package main

import (
	"fmt"
	"math"

)

// C03 - no entry is served after its expiry deadline.
//
// StoreSim on the simulated clock (which drifts between steps): TTLs from 1 ns
// to values that overflow when added to the clock, reads placed around the
// deadline and around the hand-over between the cached and the precise clock,
// and stalled maintenance (ticker task frozen, slow listener holding the
// policy lock, clock jumps = suspended machine).

func init() {
	props["C03"] = &propDef{gen: genC03, setup: func(env *simEnv) { env.peekStale = true }, check: checkC03}
}

func satAdd(a, b int64) int64 {
	if b > 0 && a > math.MaxInt64-b {
		return math.MaxInt64
	}
	return a + b
}

func genC03(g *gen, tier string) *Scenario {
	sc := &Scenario{Sim: g.sim(), Params: map[string]int64{}}
	kind := pick(g, "plain", "plain", "loading")
	sc.Cache = g.cache(kind)
	sc.Cache.MaxSize = int64(pick(g, 2, 3, 4, 8, 16))
	sc.Sim.Drift = pick(g, 1, 2, 3, 3, 4)
	sc.Sim.MaxSteps = 2000000
	stalls := pick(g, "none", "none", "ticker", "listener", "jump", "restart")
	sc.Family = kind + ",stall=" + stalls
	if stalls == "listener" {
		sc.Stubs.ListenerSlowPct = pick(g, 30, 100)
		sc.Stubs.ListenerSlowDur = pick(g, 2*sec, 20*sec, 45*sec, 120*sec, 600*sec)
		sc.Cache.MaxSize = int64(pick(g, 1, 2, 3))
	}
	ttls := []int64{1, 1 * us, 1 * ms, 100 * ms, 900 * ms, 1 * sec, 1100 * ms, 5 * sec, 29 * sec, 29900 * ms, 30 * sec, 30100 * ms, 31 * sec, 40 * sec, 60 * sec, 300 * sec}
	if tier == "thorough" {
		ttls = append(ttls, 2*3600*sec, 36*3600*sec, math.MaxInt64, math.MaxInt64-1000, math.MaxInt64-simEpochNanos)
	} else if g.pct(10) {
		ttls = append(ttls, math.MaxInt64, math.MaxInt64-1000)
	}
	if kind == "loading" {
		sc.Stubs.LoaderTTLPct = pick(g, 0, 50, 100)
		sc.Stubs.LoaderTTL = ttls[g.n(len(ttls)-2)]
	}
	nkeys := g.rng(1, 3)
	nc := g.rng(1, 3)
	for c := 0; c < nc; c++ {
		var ops []Op
		var pending []int64 // TTLs of recent sets, to aim reads at
		for n := g.rng(3, 14); n > 0; n-- {
			x := g.n(100)
			switch {
			case x < 30:
				ttl := ttls[g.n(len(ttls))]
				op := Op{Kind: "set", Key: g.n(nkeys), Cost: 1, TTL: ttl}
				if g.pct(15) {
					op.TTL = 0
				}
				ops = append(ops, op)
				if op.TTL > 0 && op.TTL < 1000*sec {
					pending = append(pending, op.TTL)
				}
			case x < 55:
				ops = append(ops, Op{Kind: "get", Key: g.n(nkeys)})
			case x < 60:
				ops = append(ops, Op{Kind: "range"})
			case x < 85:
				// sleep to about a recent deadline, then read
				d := int64(g.rng(1, 3000)) * ms
				if len(pending) > 0 && g.pct(70) {
					d = pending[g.n(len(pending))] + int64(g.rng(-2200, 2200))*ms
					if g.pct(30) {
						d = pending[g.n(len(pending))] + int64(g.rng(-5, 5))
					}
					if d < 0 {
						d = 0
					}
				}
				ops = append(ops, Op{Kind: "sleep", Dur: d}, Op{Kind: "get", Key: g.n(nkeys)})
			case x < 92:
				switch stalls {
				case "ticker":
					ops = append(ops, Op{Kind: "stall", Site: "maintenance>func", Dur: pick(g, 3*sec, 20*sec, 35*sec, 50*sec, 100*sec, 400*sec)})
				case "jump":
					ops = append(ops, Op{Kind: "advance", Dur: pick(g, 2*sec, 20*sec, 31*sec, 45*sec, 90*sec, 3600*sec)})
				case "restart":
					if c != 0 {
						// one operator: restarts do not overlap each other
						ops = append(ops, Op{Kind: "get", Key: g.n(nkeys)})
						break
					}
					// SaveCache, Close, downtime that ends around a pending deadline, a new cache, LoadCache:
					// restored values keep their wall-clock deadlines, whatever the other clients are doing
					d := int64(g.rng(0, 3000)) * ms
					rkey := g.n(nkeys)
					var after int64
					if now, dls := c03Deadlines(ops); len(dls) > 0 && g.pct(75) {
						// the new cache comes up 1-950 ms before a deadline (time spent inside calls is
						// not in the estimate), and the key is read again 0-1.2 s after that
						x := dls[g.n(len(dls))]
						d = x.at - now - int64(g.rng(1, 950))*ms
						if d < 0 {
							d = 0
						}
						rkey = x.key
						after = x.at - now - d + int64(g.rng(-100, 1200))*ms
					}
					op := Op{Kind: "restart", Key: 3, Dur: d, N: pick(g, 0, 1, 7, 4096)}
					if g.pct(15) {
						op.Cost = int64(g.rng(1, 99)) // crashed while saving: a torn stream
					}
					ops = append(ops, op, Op{Kind: "get", Key: rkey})
					if after > 0 {
						ops = append(ops, Op{Kind: "sleep", Dur: after}, Op{Kind: "get", Key: rkey})
					}
				case "listener":
					// force evictions so that the listener runs under the policy lock
					ops = append(ops, Op{Kind: "set", Key: 100 + g.n(50), Cost: 1}, Op{Kind: "set", Key: 100 + g.n(50), Cost: 1})
				default:
					ops = append(ops, Op{Kind: "get", Key: g.n(nkeys)})
				}
			default:
				ops = append(ops, Op{Kind: "sleep", Dur: int64(g.rng(1, 1500)) * ms})
			}
		}
		sc.Clients = append(sc.Clients, ops)
	}
	return sc
}

type c03dl struct {
	key int
	at  int64
}

// c03Deadlines estimates, from the sleeps of one client's operation list, the time elapsed so far and
// the deadlines of its TTL writes that still lie ahead.
func c03Deadlines(ops []Op) (now int64, dls []c03dl) {
	var all []c03dl
	for _, o := range ops {
		switch o.Kind {
		case "sleep", "advance", "restart":
			now += o.Dur
		case "set":
			if o.TTL > 0 && o.TTL < 1000*sec {
				all = append(all, c03dl{o.Key, now + o.TTL})
			}
		}
	}
	for _, x := range all {
		if x.at > now {
			dls = append(dls, x)
		}
	}
	return
}

func checkC03(rd *RunData) []Violation {
	var vs []Violation
	type wr struct {
		dplus int64 // latest possible deadline; 0 = not constrained
		what  string
	}
	writes := map[int64]wr{}
	for _, r := range rd.Recs {
		if r.Op.Kind == "set" && r.Op.TTL > 0 && !r.Open {
			writes[r.Val] = wr{satAdd(r.RetT, r.Op.TTL), fmt.Sprintf("%s by client %d returned at t=%s", r.Op, r.Client, durStr(r.RetT))}
		}
	}
	for _, l := range rd.Loader {
		if l.Outcome != "ok" || l.TTL <= 0 {
			continue
		}
		// the deadline is computed after the loader returned and before the leader's Get returned
		for _, r := range rd.Recs {
			if r.Op.Kind == "get" && !r.Open && r.Client >= 0 && rd.ClientTask[r.Client+1] == l.Task && r.Inv < l.Start && r.Ret > l.End {
				writes[l.Val] = wr{satAdd(r.RetT, l.TTL), fmt.Sprintf("loader %s (ttl %s) inside %s by client %d which returned at t=%s", l.Token, durStr(l.TTL), r.Op, r.Client, durStr(r.RetT))}
			}
		}
	}
	// clock jumps (suspended machine) during a call make the cached clock stale inside it
	var jumps []Rec
	for _, r := range rd.Recs {
		if r.Op.Kind == "advance" {
			jumps = append(jumps, r)
		}
	}
	hit := func(r Rec, k int, v int64) {
		w, ok := writes[v]
		if !ok || w.dplus == 0 {
			return
		}
		if r.InvT >= w.dplus-2*sec && r.InvT < w.dplus+2*sec {
			probe("c03.read-near-deadline")
		}
		if r.InvT < w.dplus {
			return
		}
		stale := r.Stale
		for _, j := range jumps {
			if j.Inv < r.Ret && (j.Open || j.Ret > r.Inv) && j.Op.Dur > stale {
				stale = j.Op.Dur
			}
		}
		cls := "clock-fresh"
		if stale >= 30*sec {
			cls = "cached-clock-stale>=30s"
		}
		// the cache in use is the one that was published last before the read
		var cur *RestartRec
		for i := range rd.Restarts {
			if rs := &rd.Restarts[i]; rs.DoneSeq < r.Inv && (cur == nil || rs.DoneSeq > cur.DoneSeq) {
				cur = rs
			}
		}
		// a cache that was built less than 30 s before the read cannot have a cached clock that
		// nobody refreshed for 30 s: whatever the numbers say, this is not the known finding
		if cur != nil && r.InvT-cur.LoadT < 30*sec && r.InvT >= cur.LoadT {
			cls = "clock-fresh,cache-restored<30s-ago"
			if _, ok := rd.restoredVal(*cur, v); ok {
				cls += ",restored-value"
			}
		}
		vs = append(vs, Violation{"C03/served-after-deadline/" + r.Op.Kind + "," + cls,
			fmt.Sprintf("%s by client %d invoked at t=%s returned value %d of key %d, written by %s: its deadline was at most t=%s, %.6fs before the read was invoked (cached clock up to %.3fs stale during the read)",
				r.Op, r.Client, durStr(r.InvT), v, k, w.what, durStr(w.dplus), float64(r.InvT-w.dplus)/1e9, float64(stale)/1e9)})
	}
	for _, r := range rd.Recs {
		if r.Open {
			continue
		}
		if r.Op.Kind == "get" && r.Ok {
			if r.Stale >= 30*sec {
				probe("c03.read-with-cached-clock-30s-stale")
			}
			hit(r, r.Op.Key, r.Val)
		}
		if r.Op.Kind == "range" {
			for _, kv := range r.Pairs {
				hit(r, kv.K, kv.V)
			}
		}
	}
	return vs
}
