package main

import (
	"fmt"
	"sort"

	"github.com/Yiling-J/theine-go/internal"
	"verifsim/simrt"
)

// C04 - expired entries are reclaimed within about one tick of their deadline.
//
// Two simulators: WheelSim drives the real TimerWheel alone on explicit
// simulated times (all five levels, boundary deadlines, stalls and jumps);
// the store family drives SetWithTTL through the public API with the ticker
// task on the simulated clock and observes the removal listener.

func init() {
	props["C04"] = &propDef{gen: genC04, check: checkC04}
	runners["wheel"] = runWheelScenario
}

const (
	tick0 = int64(1) << 30 // finest wheel tick (property: "one tick of the finest timer wheel" ~ 1.07 s)
	// the property's lateness allowance after an advance, stated in the
	// property's own terms (one finest tick, rounded up), not read from the code
	wheelLate = 1100 * ms
)

var wheelSpans = []int64{1 << 30, 1 << 36, 1 << 42, 1 << 47, 1 << 49}

func levelOfTTL(ttl int64) int {
	for i := 1; i < 5; i++ {
		if ttl < wheelSpans[i] {
			return i - 1
		}
	}
	return 4
}

func genC04(g *gen, tier string) *Scenario {
	if g.pct(70) {
		return genWheel(g, tier)
	}
	return genC04Store(g, tier)
}

// ---------------- WheelSim ----------------

func genWheel(g *gen, tier string) *Scenario {
	sc := &Scenario{Family: "wheel", Runner: "wheel", Sim: SimCfg{}, Params: map[string]int64{}}
	// wheel time at start: small, or far into the wheel's ranges so that slot
	// wrap-around of every level is crossed
	start := pick(g, int64(1), int64(g.rng(1, 5000))*ms, int64(g.rng(1, 70))*sec, int64(g.rng(1, 5000))*sec,
		wheelSpans[g.rng(1, 4)]*int64(g.rng(1, 70))-int64(g.rng(0, 3))*sec, int64(g.rng(1, 40))*86400*sec)
	sc.Sim.StartNanos = start
	maxLevel := pick(g, 0, 1, 1, 2, 2, 3, 4)
	if tier == "quick" && maxLevel > 2 && g.pct(50) {
		maxLevel = 2
	}
	sc.Params["maxlevel"] = int64(maxLevel)
	pattern := pick(g, "regular", "regular", "irregular", "stall", "jumps")
	switch pattern {
	case "regular":
		sc.Family = "wheel-regular"
	case "irregular":
		sc.Family = "wheel-irregular"
	case "stall":
		sc.Family = "wheel-stall"
	case "jumps":
		sc.Family = "wheel-jumps"
	}
	deadline := func() int64 {
		// relative deadline (TTL) for a new or re-scheduled entry
		lv := g.rng(0, maxLevel)
		var d int64
		switch g.n(6) {
		case 0: // adjacent to a slot boundary of level lv (absolute boundary handled by the runner: flag in Cost)
			d = wheelSpans[lv]*int64(g.rng(1, 66)) + int64(g.rng(-1, 1))
		case 1: // just around the hand-over between level lv and lv+1
			if lv < 4 {
				d = wheelSpans[lv+1] + int64(g.rng(-2, 2))*pick(g, int64(1), ms, sec)
			} else {
				d = wheelSpans[4] + int64(g.rng(0, 100))*sec
			}
		case 2: // already past or immediate
			d = -int64(g.rng(0, 90)) * pick(g, int64(1), ms, sec)
		default:
			lo := int64(1)
			if lv > 0 {
				lo = wheelSpans[lv]
			}
			hi := wheelSpans[lv] * 64
			if lv+1 < 5 && wheelSpans[lv+1] < hi {
				hi = wheelSpans[lv+1]
			}
			if lv == 4 {
				hi = wheelSpans[4] * 3
			}
			d = lo + int64(g.r.Uint64()%uint64(hi-lo+1))
		}
		return d
	}
	var ops []Op
	nkeys := g.rng(1, 12)
	nops := g.rng(6, 60)
	if tier == "thorough" {
		nops = g.rng(10, 200)
		nkeys = g.rng(1, 40)
	}
	for i := 0; i < nops; i++ {
		x := g.n(100)
		switch {
		case x < 30:
			op := Op{Kind: "wsched", Key: g.n(nkeys), Dur: deadline()}
			if g.pct(25) {
				op.N = 1 // snap the absolute deadline to the nearest slot boundary of its level (+/- Cost ns)
				op.Cost = int64(g.rng(-1, 1))
			}
			ops = append(ops, op)
		case x < 36:
			ops = append(ops, Op{Kind: "wdesched", Key: g.n(nkeys)})
		default:
			var d int64
			switch pattern {
			case "regular":
				d = sec + int64(g.rng(-50, 50))*ms
			case "irregular":
				d = int64(g.rng(100, 5000)) * ms
			case "stall":
				d = sec
				if g.pct(8) {
					d = int64(g.rng(2, 400)) * sec
				}
			case "jumps":
				d = sec
				if g.pct(15) {
					lv := g.rng(0, maxLevel)
					d = wheelSpans[lv] * int64(pick(g, 1, 2, 63, 64, 65, 70, 130))
					if lv == 4 {
						d = wheelSpans[4] * int64(g.rng(1, 3))
					}
				}
			}
			n := 1
			if g.pct(30) {
				n = g.rng(2, 80) // a run of ticks
				if maxLevel >= 1 && g.pct(30) {
					n = g.rng(60, 400)
				}
			}
			ops = append(ops, Op{Kind: "wadv", Dur: d, N: n})
		}
	}
	// run the clock past every deadline so that every entry must have been reclaimed
	ops = append(ops, Op{Kind: "wdrain"})
	sc.Clients = [][]Op{ops}
	return sc
}

type wheelRef struct {
	since    int64 // max(deadline, time at which it was scheduled): reclamation cannot precede scheduling
	deadline int64
	past     bool // scheduled with a deadline not after the wheel's time
	level    int  // level the TTL selects at scheduling time (by the property's spans)
}

func runWheelScenario(sc *Scenario) *RunData {
	rd := &RunData{Sc: sc, Snaps: map[string]*Snap{}, SnapAt: map[string]uint64{}}
	cfg := simConfig(sc)
	cfg.StartNanos = 0
	rd.Res = simrt.Run(cfg, func() {
		w := internal.NewWBWheelSim(sc.Sim.StartNanos)
		now := sc.Sim.StartNanos
		ref := map[int]*wheelRef{}
		advances := 0
		check := func(what string) bool {
			// conservation: the wheel holds exactly the reference entries
			cont, err := w.Contents()
			if err != "" {
				rd.violate("C04/wheel-structure", err)
				return false
			}
			seen := map[int]int{}
			lvl := map[int]int{}
			for _, c := range cont {
				seen[c.Key]++
				lvl[c.Key] = c.Level
				r := ref[c.Key]
				if r == nil {
					rd.violate("C04/wheel-ghost", fmt.Sprintf("after %s: key %d is filed in the wheel (level %d slot %d) but was removed or descheduled", what, c.Key, c.Level, c.Slot))
					return false
				}
			}
			keys := make([]int, 0, len(ref))
			for k := range ref {
				keys = append(keys, k)
			}
			sort.Ints(keys)
			for _, k := range keys {
				r := ref[k]
				if seen[k] == 0 {
					rd.violate("C04/lost-entry", fmt.Sprintf("after %s: key %d (deadline %s) is in no wheel slot although it was never reported expired: it can never expire", what, k, durStr(r.deadline)))
					return false
				}
				if seen[k] > 1 {
					rd.violate("C04/wheel-structure", fmt.Sprintf("after %s: key %d is filed %d times", what, k, seen[k]))
					return false
				}
				if what != "schedule" && r.since+wheelLate <= now {
					cls := fmt.Sprintf("level=%d", r.level)
					if r.past {
						cls = "scheduled-in-past"
					}
					rd.violate("C04/late/wheel,"+cls, fmt.Sprintf("after advance to t=%s key %d with deadline %s (%.3fs earlier; scheduled with ttl class level %d, past=%v) is still filed in the wheel at level %d", durStr(now), k, durStr(r.deadline), float64(now-r.deadline)/1e9, r.level, r.past, lvl[k]))
					return false
				}
			}
			return true
		}
		advance := func(d int64) bool {
			now += d
			advances++
			keys, dls := w.Advance(now)
			for i, k := range keys {
				if k < -900000 {
					rd.violate("C04/wrong-reason", "the wheel reported a removal with a reason other than EXPIRED")
					return false
				}
				r := ref[k]
				if r == nil {
					rd.violate("C04/callback-for-unscheduled", fmt.Sprintf("advance to %s reported key %d which is not scheduled (reported twice, or after deschedule)", durStr(now), k))
					return false
				}
				if r.deadline > now || dls[i] != r.deadline {
					rd.violate("C04/early/wheel", fmt.Sprintf("advance to t=%s reported key %d expired but its deadline in force is %s (%.3fs later)", durStr(now), k, durStr(r.deadline), float64(r.deadline-now)/1e9))
					return false
				}
				probe(fmt.Sprintf("c04.expired.level%d", r.level))
				delete(ref, k)
			}
			return check("advance")
		}
	loop:
		for _, op := range sc.Clients[0] {
			switch op.Kind {
			case "wsched":
				dl := now + op.Dur
				if op.N == 1 && op.Dur > 0 {
					lv := levelOfTTL(op.Dur)
					dl = (dl/wheelSpans[lv])*wheelSpans[lv] + op.Cost
					if dl <= now {
						dl += wheelSpans[lv]
					}
				}
				if dl <= 0 {
					dl = 1
				}
				if _, ok := ref[op.Key]; ok {
					probe("c04.rescheduled")
				}
				r := &wheelRef{deadline: dl, since: dl, past: dl <= now, level: levelOfTTL(dl - now)}
				if r.past {
					r.since = now
				}
				if r.past {
					probe("c04.scheduled-in-past")
				}
				ref[op.Key] = r
				w.Schedule(op.Key, dl)
				if !check("schedule") {
					break loop
				}
			case "wdesched":
				if _, ok := ref[op.Key]; ok {
					delete(ref, op.Key)
					w.Deschedule(op.Key)
					probe("c04.descheduled")
					if !check("schedule") {
						break loop
					}
				}
			case "wadv":
				n := op.N
				if n < 1 {
					n = 1
				}
				for i := 0; i < n; i++ {
					if !advance(op.Dur) {
						break loop
					}
				}
			case "wdrain":
				// tick once per second until every deadline is more than two ticks behind
				last := now // entries scheduled with a past deadline count from now
				for _, r := range ref {
					if r.deadline > last {
						last = r.deadline
					}
				}
				if last-now > 40000*sec {
					// far future: jump close to it first (a legal advance pattern), then tick
					if !advance(last - now - 30*sec) {
						break loop
					}
				}
				for now < last+3*sec {
					if !advance(sec) {
						break loop
					}
				}
				if len(ref) != 0 {
					rd.violate("C04/late/wheel,never", fmt.Sprintf("%d entries are still scheduled 3 s after the last deadline", len(ref)))
				}
			}
		}
		rd.Nontrivial = -1
		if advances > 0 {
			rd.Nontrivial = 1
		}
		probeN("c04.advances", advances)
	})
	return rd
}

// ---------------- store family ----------------

// genC04Store: SetWithTTL through the public API, one writer per key.
//
//	store-ttl      every write carries a TTL (all wheel levels)
//	store-ttl-seq  TTL changes on a live entry: none -> TTL, shorter, longer, TTL-less
//	               overwrite (inherits the deadline), Delete and re-create
//	store-busy     the same while churn clients keep the maintenance task busy:
//	               every removal notification stalls inside the listener (which
//	               runs under the policy mutex), with gaps in which a ticker that
//	               waits for the mutex gets it
func genC04Store(g *gen, tier string) *Scenario {
	fam := pick(g, "store-ttl", "store-ttl-seq", "store-ttl-seq", "store-busy", "store-restart")
	sc := &Scenario{Family: fam, Sim: g.sim(), Params: map[string]int64{}}
	sc.Cache = g.cache(pick(g, "plain", "plain", "loading"))
	sc.Cache.MaxSize = int64(pick(g, 16, 64)) // never full: at most 9 TTL keys + 3 churn keys
	sc.Cache.WriteChan = pick(g, 2, 8, 64)
	sc.Cache.WriteBuf = pick(g, 4, 16, 128)
	// fault-free with modest drift: the end-to-end lateness figure applies
	sc.Sim.Drift = pick(g, 0, 1, 2)
	sc.Sim.MaxSteps = 3000000
	ttls := []int64{1200 * ms, 1500 * ms, 3 * sec, 10 * sec, 30 * sec, 65 * sec, 70 * sec, 100 * sec, 140 * sec}
	if tier == "thorough" {
		ttls = append(ttls, 600*sec, 4400*sec, 4700*sec, 9000*sec)
	}
	nshort := 5
	if fam == "store-busy" {
		ttls = ttls[:4]
		nshort = 4
		sc.Sim.Drift = 0
	}
	nc := g.rng(1, 3)
	var maxEnd int64
	for c := 0; c < nc; c++ {
		var ops []Op
		var t int64
		for n := g.rng(1, 5); n > 0; n-- {
			key := c*10 + g.n(3)
			ttl := ttls[g.n(len(ttls))]
			if g.pct(60) {
				ttl = ttls[g.n(nshort)]
			}
			op := Op{Kind: "set", Key: key, Cost: 1, TTL: ttl}
			if fam != "store-ttl" {
				switch x := g.n(100); {
				case x < 30:
					op.TTL = 0
				case x < 40:
					op = Op{Kind: "del", Key: key}
				}
			}
			ops = append(ops, op)
			if t+op.TTL > maxEnd {
				maxEnd = t + op.TTL
			}
			d := int64(g.rng(1, 4000)) * ms
			if fam != "store-ttl" && g.pct(25) {
				d = int64(g.rng(0, 3)) * ms // the next write lands before the previous event is applied
			}
			ops = append(ops, Op{Kind: "sleep", Dur: d})
			t += d
		}
		sc.Clients = append(sc.Clients, ops)
	}
	if fam == "store-restart" {
		// an operator client saves, closes, stays down for a while and loads the stream into a new
		// cache once or twice while the writers go on: restored entries keep their wall-clock
		// deadlines and must be reclaimed by the NEW cache's wheel within the same bounds
		var ops []Op
		var t int64
		for n := g.rng(1, 2); n > 0; n-- {
			d := int64(g.rng(0, 6000)) * ms
			down := pick(g, int64(0), int64(g.rng(1, 3000))*ms, int64(g.rng(1, 40))*sec)
			op := Op{Kind: "restart", Key: 5, Dur: down, N: pick(g, 0, 3, 4096)}
			if g.pct(10) {
				op.Cost = int64(g.rng(1, 99))
			}
			ops = append(ops, Op{Kind: "sleep", Dur: d}, op)
			t += d + down
		}
		if t > maxEnd {
			maxEnd = t
		}
		sc.Clients = append(sc.Clients, ops)
		if g.pct(30) {
			// the first restart loads into an idle standby cache that is older than the saving one
			sc.Params["standby"] = pick(g, int64(g.rng(1, 3000))*ms, int64(g.rng(3, 90))*sec, int64(g.rng(100, 5000))*sec)
			sc.Family = "store-restart,older-standby"
		}
	}
	if fam == "store-busy" {
		stall := int64(g.rng(100, 600)) * ms
		sc.Stubs.ListenerSlowPct = 100
		sc.Stubs.ListenerSlowDur = stall
		locked := g.pct(50) // churn period locked to the tick period: the same phase at every tick
		for c := g.rng(1, 2); c > 0; c-- {
			var ops []Op
			key := 100 + c
			if g.pct(50) {
				ops = append(ops, Op{Kind: "sleep", Dur: int64(g.rng(0, 999)) * ms})
			}
			for n := int((maxEnd+8*sec)/sec) + g.rng(0, 4); n > 0; n-- {
				gap := int64(g.rng(50, 900)) * ms
				if locked {
					gap = sec - stall
				}
				ops = append(ops, Op{Kind: "set", Key: key, Cost: 1}, Op{Kind: "del", Key: key}, Op{Kind: "sleep", Dur: gap})
			}
			sc.Clients = append(sc.Clients, ops)
		}
	}
	sc.Params["end"] = maxEnd
	sc.Epilogue = []Op{{Kind: "sleep", Dur: maxEnd + 5*sec}, {Kind: "waitidle"}, {Kind: "wait"}, {Kind: "waitidle"}, {Kind: "snap", Label: "final"}}
	return sc
}

// c04val: what the property says about one stored value.
type c04val struct {
	r        Rec
	lo, hi   int64 // deadline within [lo, hi]; hasDL false: no deadline
	hasDL    bool
	unknown  bool  // deadline not decidable from the history (TTL-less overwrite racing the old deadline)
	lost     bool  // the write began before a restart finished and the value was not in the new cache after LoadCache
	lostAt   uint64 // sequence number at which that LoadCache had returned
	nextInvT int64 // invocation time of the next write / delete of the key (-1: none)
	nextRetT int64
}

func checkC04(rd *RunData) []Violation {
	if rd.Sc.Runner != "" || rd.Res.Verdict != "ok" {
		return nil
	}
	var vs []Violation
	// one writer per key, so the writes of a key are totally ordered. Deadline of a value:
	// SetWithTTL: within [inv+ttl, ret+ttl]; TTL-less Set on a live entry keeps that entry's
	// deadline, on an absent / expired one there is none.
	vals := map[int64]*c04val{}
	var order []*c04val
	type kstate struct {
		cur *c04val // nil: absent
		at  uint64  // invocation stamp of the call that established cur
	}
	keys := map[int]*kstate{}
	for _, r := range sortedRecs(rd.Recs) {
		if r.Op.Key >= 100 || (r.Op.Kind != "set" && r.Op.Kind != "del") {
			continue
		}
		ks := keys[r.Op.Key]
		if ks == nil {
			ks = &kstate{}
			keys[r.Op.Key] = ks
		}
		// a restart between the call that established the key's state and this call: the key now
		// holds what LoadCache restored for it (the value current at the save, if still alive), or
		// nothing - whatever calls on the old, closed cache did meanwhile
		for _, rs := range rd.Restarts {
			if ks.at < rs.DoneSeq && rs.DoneSeq < r.Inv {
				ks.cur = nil
				if rs.Restored != nil {
					for _, e := range rs.Restored.Resident {
						if e.Key == r.Op.Key {
							ks.cur = vals[e.Value]
						}
					}
				}
			}
		}
		ks.at = r.Inv
		if ks.cur != nil {
			ks.cur.nextInvT, ks.cur.nextRetT = r.InvT, r.RetT
		}
		if r.Op.Kind == "del" {
			ks.cur = nil
			continue
		}
		if !r.Ok {
			continue
		}
		v := &c04val{r: r, nextInvT: -1, nextRetT: -1}
		switch prev := ks.cur; {
		case r.Op.TTL > 0:
			v.hasDL, v.lo, v.hi = true, r.InvT+r.Op.TTL, r.RetT+r.Op.TTL
		case prev == nil || !prev.hasDL && !prev.unknown:
			// fresh entry, or overwrite of a value without deadline: none
		case prev.unknown:
			v.unknown = true
		case r.RetT < prev.lo:
			v.hasDL, v.lo, v.hi = true, prev.lo, prev.hi // inherited
			probe("c04.store-deadline-inherited")
		case r.InvT > prev.hi+2500*ms:
			// the old value was due for reclaim long ago: fresh, or stale deadline dropped
		default:
			v.unknown = true
		}
		if ks.cur != nil && !ks.cur.hasDL && v.hasDL && r.Op.TTL > 0 {
			probe("c04.store-ttl-added-to-live-entry")
		}
		if ks.cur != nil && ks.cur.hasDL && r.Op.TTL > 0 && r.RetT < ks.cur.lo {
			if v.lo > ks.cur.hi {
				probe("c04.store-ttl-extended")
			} else if v.hi < ks.cur.lo {
				probe("c04.store-ttl-shortened")
			}
		}
		for _, rs := range rd.Restarts {
			if r.Inv < rs.DoneSeq {
				if _, ok := rd.restoredVal(rs, r.Val); !ok {
					v.lost, v.lostAt = true, rs.DoneSeq
					probe("c04.store-value-not-restored")
					break
				}
				probe("c04.store-value-restored")
			}
		}
		if ks.cur != nil && r.Ret > 0 {
			for _, rs := range rd.Restarts {
				// a TTL-less Set that overlaps a restart may or may not have met the old entry
				if r.Inv < rs.DoneSeq && r.Ret > rs.SaveSeq && r.Op.TTL == 0 {
					v.unknown = true
				}
			}
		}
		vals[r.Val] = v
		order = append(order, v)
		ks.cur = v
	}
	// time the maintenance side was stalled inside the listener within [from, to]: a ticker
	// that waits for the policy mutex is late by at most that much
	stalled := func(from, to int64) int64 {
		var sum int64
		for _, l := range rd.Listener {
			if l.Slow == 0 {
				continue
			}
			a, b := l.T, l.T+l.Slow
			if a < from {
				a = from
			}
			if b > to {
				b = to
			}
			if b > a {
				sum += b - a
			}
		}
		return sum
	}
	busy := ""
	if rd.Sc.Family == "store-busy" {
		busy = ",busy"
	}
	noted := map[int64]LRec{}
	for _, l := range rd.Listener {
		v := vals[l.Val]
		if v == nil {
			continue
		}
		if _, dup := noted[l.Val]; !dup {
			noted[l.Val] = l
		}
		if l.Reason != 2 || v.unknown {
			continue
		}
		if v.lost {
			// reported by the old cache before it went down: judged like any other; the new cache
			// cannot report a value it never held
			if l.Seq > v.lostAt {
				vs = append(vs, Violation{"C04/early/store,not-restored-but-reported", fmt.Sprintf("key %d value %d was not resident right after a LoadCache but was reported EXPIRED after it, at t=%s", l.Key, l.Val, durStr(l.T))})
			}
		}
		probe("c04.store-expired")
		if !v.hasDL {
			vs = append(vs, Violation{"C04/early/store,no-deadline" + busy, fmt.Sprintf("key %d value %d (%s at t=[%s,%s]) has no deadline but was reported EXPIRED at t=%s", l.Key, l.Val, v.r.Op, durStr(v.r.InvT), durStr(v.r.RetT), durStr(l.T))})
			continue
		}
		lv := levelOfTTL(v.lo - v.r.InvT)
		if l.T < v.lo {
			vs = append(vs, Violation{fmt.Sprintf("C04/early/store,level=%d%s", lv, busy), fmt.Sprintf("key %d value %d (%s at t=[%s,%s], deadline >= %s) was reported EXPIRED at t=%s, before its deadline", l.Key, l.Val, v.r.Op, durStr(v.r.InvT), durStr(v.r.RetT), durStr(v.lo), durStr(l.T))})
		}
		allow := 2500*ms + stalled(v.lo, l.T)
		if l.T > v.hi+allow {
			vs = append(vs, Violation{fmt.Sprintf("C04/late/store,level=%d%s", lv, busy), fmt.Sprintf("key %d value %d (%s at t=[%s,%s], deadline <= %s) was reported EXPIRED only at t=%s, %.3fs after its deadline (ticks every second; the listener stalled maintenance for %.3fs of that time)", l.Key, l.Val, v.r.Op, durStr(v.r.InvT), durStr(v.r.RetT), durStr(v.hi), durStr(l.T), float64(l.T-v.hi)/1e9, float64(stalled(v.lo, l.T))/1e9)})
		}
	}
	// a value that stayed current beyond its deadline must have left by the end of the run
	// (which lasts 5 s beyond the last deadline); one without a deadline must still be there
	endT := int64(0)
	for _, r := range rd.Recs {
		if r.RetT > endT {
			endT = r.RetT
		}
	}
	resident := map[int64]bool{}
	if sn := rd.Snaps["final"]; sn != nil {
		for _, e := range sn.Resident {
			resident[e.Value] = true
		}
	}
	for _, v := range order {
		if v.unknown || v.lost {
			continue
		}
		_, ok := noted[v.r.Val]
		horizon := endT // until when the value stayed current
		if v.nextInvT >= 0 {
			horizon = v.nextInvT
		}
		switch {
		case v.hasDL && !ok && horizon > v.hi+2500*ms+stalled(v.lo, horizon):
			lv := levelOfTTL(v.lo - v.r.InvT)
			vs = append(vs, Violation{fmt.Sprintf("C04/late/store-never,level=%d%s", lv, busy), fmt.Sprintf("key %d value %d (%s at t=%s, deadline <= %s) stayed current until t=%s and was never reclaimed", v.r.Op.Key, v.r.Val, v.r.Op, durStr(v.r.RetT), durStr(v.hi), durStr(horizon))})
		case !v.hasDL && v.nextInvT < 0 && rd.Snaps["final"] != nil && !resident[v.r.Val] && !ok:
			vs = append(vs, Violation{"C04/early/store,vanished" + busy, fmt.Sprintf("key %d value %d (%s, no deadline, never deleted, cache never full) is neither resident at the end nor was any removal reported", v.r.Op.Key, v.r.Val, v.r.Op)})
		}
	}
	return vs
}
