package main

import (
	"fmt"
	"sort"
	"strings"
	"time"

	"github.com/anishathalye/porcupine"
)

// C14 - hybrid cache never serves a stale, deleted or expired value from either tier.
// C15 - hybrid cache: evicted entries reach the secondary tier; memory stays bounded.
//
// HybridSim: HybridCache / HybridLoadingCache over the simulated secondary
// store (a map with a per-call fault plan: slow, failing Get/Set/Delete), the
// secondary workers being simulated tasks like every other goroutine.

func init() {
	props["C14"] = &propDef{gen: genC14, setup: func(env *simEnv) { env.peekStale = true }, check: checkC14}
	props["C15"] = &propDef{gen: genC15, setup: setupC15, check: checkC15}
}

func genC14(g *gen, tier string) *Scenario {
	sc := &Scenario{Sim: g.sim(), Params: map[string]int64{}}
	kind := pick(g, "hybrid", "hybrid", "hybridloading")
	sc.Cache = g.cache(kind)
	sc.Cache.MaxSize = int64(pick(g, 1, 2, 3, 4, 8))
	sc.Cache.Prob = pick(g, float32(0), float32(0.3), float32(1), float32(1))
	sc.Cache.Workers = g.rng(1, 3)
	sc.Sim.Drift = pick(g, 1, 2, 3)
	faults := pick(g, "none", "none", "slow", "errors")
	sc.Family = fmt.Sprintf("%s,prob=%v,faults=%s", kind, sc.Cache.Prob, faults)
	if g.pct(25) {
		// entry pool: half of these runs exercise the pool's code paths without ever handing
		// out a recycled entry (a recycled entry can receive a stale queued event: known finding)
		sc.Cache.Pool = true
		sc.Sim.PoolReuse = pick(g, 0, 0, 50, 100)
		sc.Family += ",pool"
	}
	switch faults {
	case "slow":
		sc.Stubs.SecSlowPct = pick(g, 20, 60)
		sc.Stubs.SecSlowDur = int64(g.rng(1, 3000)) * ms
	case "errors":
		sc.Stubs.SecGetErrPct = pick(g, 0, 15)
		sc.Stubs.SecSetErrPct = pick(g, 0, 15)
		sc.Stubs.SecDelErrPct = pick(g, 0, 15)
	}
	if kind == "hybridloading" {
		sc.Stubs.LoaderTTLPct = pick(g, 0, 40)
		sc.Stubs.LoaderTTL = pick(g, 1*sec, 5*sec, 40*sec)
	}
	nkeys := g.rng(2, 6)
	nc := g.rng(1, 3)
	ttls := []int64{300 * ms, 1 * sec, 3 * sec, 40 * sec, 3600 * sec}
	nops := [2]int{6, 30}
	if tier == "thorough" {
		nops = [2]int{6, 60}
	}
	for c := 0; c < nc; c++ {
		var ops []Op
		for n := g.rng(nops[0], nops[1]); n > 0; n-- {
			x := g.n(100)
			switch {
			case x < 38:
				op := Op{Kind: "set", Key: g.n(nkeys), Cost: 1}
				if g.pct(35) {
					op.TTL = ttls[g.n(len(ttls))]
				}
				ops = append(ops, op)
			case x < 78:
				ops = append(ops, Op{Kind: "get", Key: g.n(nkeys)})
			case x < 88:
				ops = append(ops, Op{Kind: "del", Key: g.n(nkeys)})
			case x < 93:
				// push others out of memory
				ops = append(ops, Op{Kind: "set", Key: 100 + g.n(20), Cost: 1}, Op{Kind: "set", Key: 100 + g.n(20), Cost: 1})
			default:
				ops = append(ops, Op{Kind: "sleep", Dur: int64(g.rng(1, 2500)) * ms})
			}
		}
		sc.Clients = append(sc.Clients, ops)
	}
	if g.pct(10) {
		// the process restarts (SaveCache, Close, new cache, LoadCache) while the secondary store
		// lives on: what was restored must still be written back when it is evicted
		sc.Family += ",restart"
		var ops []Op
		for n := g.rng(1, 2); n > 0; n-- {
			ops = append(ops, Op{Kind: "sleep", Dur: int64(g.rng(0, 4000)) * ms}, Op{Kind: "restart", Key: 9, Dur: int64(g.rng(0, 500)) * ms, N: pick(g, 0, 64)})
		}
		sc.Clients = append(sc.Clients, ops)
	}
	return sc
}

// c14RacesRestart: the call overlapped a restart (it may have run on the old, closed cache).
func c14RacesRestart(rd *RunData, r Rec) bool {
	for _, rs := range rd.Restarts {
		if r.Inv < rs.DoneSeq && (r.Open || r.Ret > rs.BeginSeq) {
			return true
		}
	}
	return false
}

// possible-contents state for the register model: failed operations make the
// outcome of that one operation "may or may not have happened"
type c14in struct {
	kind   string // set del delmaybe read miss loadread
	v      int64
	client int
}

func c14key(s []int64) string {
	var sb strings.Builder
	for _, v := range s {
		fmt.Fprintf(&sb, "%d,", v)
	}
	return sb.String()
}

var c14Model = porcupine.Model{
	Init: func() interface{} { return []int64{0} },
	Step: func(state, input, output interface{}) (bool, interface{}) {
		s := state.([]int64)
		in := input.(c14in)
		has := func(v int64) bool {
			for _, x := range s {
				if x == v {
					return true
				}
			}
			return false
		}
		switch in.kind {
		case "set":
			return true, []int64{in.v}
		case "del":
			return true, []int64{0}
		case "delmaybe":
			if has(0) {
				return true, s
			}
			ns := append([]int64{0}, s...)
			sort.Slice(ns, func(i, j int) bool { return ns[i] < ns[j] })
			return true, ns
		case "read":
			return has(in.v), []int64{in.v}
		case "loadread":
			return true, []int64{in.v}
		case "miss":
			return true, s
		}
		return false, s
	},
	Equal: func(a, b interface{}) bool { return c14key(a.([]int64)) == c14key(b.([]int64)) },
}

func checkC14(rd *RunData) []Violation {
	return poolReuseSuffix(rd, checkC14x(rd))
}

// poolReuseSuffix marks the violations of runs in which the entry pool handed out recycled
// entries: such an entry can receive an event that was queued for its previous life.
func poolReuseSuffix(rd *RunData, vs []Violation) []Violation {
	if rd.Sc.Cache.Pool && rd.Sc.Sim.PoolReuse > 0 {
		for i := range vs {
			vs[i].Sig += ",pool-reuse"
		}
	}
	return vs
}

func checkC14x(rd *RunData) []Violation {
	var vs []Violation
	recs := sortedRecs(rd.Recs)
	fam := rd.Sc.Cache.Kind
	type wr struct {
		r     Rec
		dplus int64
		load  bool
	}
	writes := map[int64]wr{}
	sets := map[int][]Rec{}
	dels := map[int][]Rec{}
	for _, r := range recs {
		switch r.Op.Kind {
		case "set":
			if r.Ok && !r.Open {
				w := wr{r: r}
				if r.Op.TTL > 0 {
					w.dplus = satAdd(r.RetT, r.Op.TTL)
				}
				writes[r.Val] = w
				sets[r.Op.Key] = append(sets[r.Op.Key], r)
			}
		case "del":
			if !r.Open && r.Err == "" {
				dels[r.Op.Key] = append(dels[r.Op.Key], r)
			}
		}
	}
	loaderVal := map[int64]LdRec{}
	for _, l := range rd.Loader {
		loaderVal[l.Val] = l
		if l.Outcome == "ok" && l.End != 0 {
			// as a write it spans the loader invocation; its deadline is computed before the leader's Get returns
			w := wr{r: Rec{Op: Op{Kind: "load", Key: l.Key}, Inv: l.Start, Ret: l.End, InvT: l.StartT, RetT: l.EndT, Val: l.Val, Client: -2}, load: true}
			if l.TTL > 0 {
				for _, g := range recs {
					if g.Op.Kind == "get" && g.Client >= 0 && !g.Open && rd.ClientTask[g.Client+1] == l.Task && g.Inv < l.Start && g.Ret > l.End {
						w.dplus = satAdd(g.RetT, l.TTL)
					}
				}
			}
			writes[l.Val] = w
		}
	}
	source := func(r Rec, after uint64) string {
		promoted := false
		for _, s := range rd.Sec {
			if s.Op == "get" && s.Found && s.Val == r.Val {
				if s.Seq > r.Inv && s.Seq < r.Ret {
					return "from-secondary"
				}
				if s.Seq < r.Inv && s.Seq > after {
					promoted = true // the stale copy was promoted from the secondary tier after the newer write
				}
			}
		}
		if promoted {
			return "from-memory-after-promotion"
		}
		return "from-memory"
	}
	// a call on key k that was in flight while a restart saved the cache makes the snapshot of k a
	// snapshot of a non-quiescent cache (e.g. a Delete that has removed the map slot and is parked
	// before queueing its REMOVE event is still in the policy lists, which is what SaveCache walks):
	// what k holds after that restart is not decidable from the history
	undecided := func(key int, r Rec) bool {
		for _, rs := range rd.Restarts {
			if rs.DoneSeq > r.Ret {
				continue
			}
			for _, o := range recs {
				if o.Op.Key == key && (o.Op.Kind == "set" || o.Op.Kind == "del" || o.Op.Kind == "get") && o.Inv < rs.DoneSeq && (o.Open || o.Ret > rs.BeginSeq) {
					return true
				}
			}
		}
		return false
	}
	ruleHit := false
	for _, r := range recs {
		if r.Op.Kind != "get" || !r.Ok || r.Open {
			continue
		}
		w, ok := writes[r.Val]
		if !ok || w.r.Op.Key != r.Op.Key {
			vs = append(vs, Violation{"C14/foreign-value/" + fam, fmt.Sprintf("%s by client %d returned value %d which was never written to key %d", r.Op, r.Client, r.Val, r.Op.Key)})
			ruleHit = true
			continue
		}
		src := source(r, 0)
		if src == "from-secondary" {
			probe("c14.hit-from-secondary")
		}
		skipOrder := len(rd.Restarts) > 0 && undecided(r.Op.Key, r)
		if skipOrder {
			probe("c14.key-in-flight-during-restart")
		}
		for _, s2 := range sets[r.Op.Key] {
			if skipOrder {
				break
			}
			if s2.Inv > w.r.Ret && s2.Ret < r.Inv {
				src := source(r, s2.Inv) // promoted from the secondary tier after the newer Set began
				// why was the newer value not there any more?
				why := "newer-value-left-otherwise"
				if c14RacesRestart(rd, s2) {
					continue // the newer Set overlapped a restart: it may have gone to the old, closed cache
				}
				lostAtRestart := false
				for _, rs := range rd.Restarts {
					if s2.Ret < rs.DoneSeq && rs.DoneSeq < r.Ret {
						if _, ok := rd.restoredVal(rs, s2.Val); !ok {
							lostAtRestart = true
						}
					}
				}
				for _, l := range rd.Listener {
					if l.Key == r.Op.Key && l.Val == s2.Val && l.Seq < r.Ret {
						switch {
						case l.Reason == 2:
							why = "newer-value-expired"
						case l.Reason == 1 && rd.Sc.Cache.Prob < 1:
							why = "newer-value-dropped-on-eviction(prob<1)"
						case l.Reason == 1:
							why = "newer-value-evicted-without-demotion(prob=1)"
						}
					}
				}
				if why == "newer-value-left-otherwise" {
					// replaced by a still newer write, or expired without having been reclaimed yet
					for _, s3 := range sets[r.Op.Key] {
						if s3.Inv > s2.Inv && s3.Val != s2.Val && s3.Inv < r.Ret {
							why = "newer-value-overwritten-by-later-writes"
						}
					}
					if w2, ok := writes[s2.Val]; ok && w2.dplus != 0 && r.RetT >= w2.r.InvT+w2.r.Op.TTL {
						why = "newer-value-expired"
					}
				}
				if lostAtRestart && (why == "newer-value-left-otherwise" || why == "newer-value-overwritten-by-later-writes") {
					why = "newer-value-not-restored-at-restart"
				}
				src += "," + why
				vs = append(vs, Violation{"C14/stale-value-served/" + src + "," + fam, fmt.Sprintf("%s by client %d (inv=%d) returned value %d (written by %s, completed at seq %d) although the later %s by client %d (value %d, seq [%d,%d]) had completed before the read began", r.Op, r.Client, r.Inv, r.Val, w.r.Op, w.r.Ret, s2.Op, s2.Client, s2.Val, s2.Inv, s2.Ret)})
				ruleHit = true
				break
			}
		}
		for _, d := range dels[r.Op.Key] {
			if skipOrder {
				break
			}
			if c14RacesRestart(rd, d) {
				continue
			}
			resurrected := false
			for _, rs := range rd.Restarts {
				// a Delete that completed before the restart began cannot be undone by it; one issued
				// after the save began may be: the stream still holds the value (a snapshot restore)
				if d.Inv > rs.BeginSeq && d.Ret < r.Inv && rs.DoneSeq < r.Ret {
					resurrected = true
				}
			}
			if resurrected {
				continue
			}
			if d.Inv > w.r.Ret && d.Ret < r.Inv {
				src := source(r, d.Inv)
				vs = append(vs, Violation{"C14/deleted-value-served/" + src + "," + fam, fmt.Sprintf("%s by client %d (inv=%d) returned value %d (written by %s, completed at seq %d) although %s by client %d (seq [%d,%d]) had completed without error before the read began", r.Op, r.Client, r.Inv, r.Val, w.r.Op, w.r.Ret, d.Op, d.Client, d.Inv, d.Ret)})
				ruleHit = true
				break
			}
		}
		if w.dplus != 0 && r.InvT >= w.dplus {
			// a loading Get that joined the flight of this very load got the fresh value
			if !(w.load && r.Inv < w.r.Ret) {
				cls := "clock-fresh"
				if r.Stale >= 30*sec {
					cls = "cached-clock-stale>=30s"
				}
				vs = append(vs, Violation{"C14/expired-value-served/" + src + "," + cls + "," + fam, fmt.Sprintf("%s by client %d invoked at t=%s returned value %d whose deadline was at most t=%s", r.Op, r.Client, durStr(r.InvT), r.Val, durStr(w.dplus))})
				ruleHit = true
			}
		}
	}
	if ruleHit || len(rd.Restarts) > 0 {
		return vs // (a restart is not an operation of the register model)
	}
	// linearizability of the hybrid Get history per key (miss: always legal, no state change)
	kops := map[int][]porcupine.Operation{}
	add := func(key int, r Rec, in c14in) {
		ret := int64(r.Ret)
		if r.Open {
			ret = int64(^uint64(0) >> 2)
		}
		in.client = r.Client
		kops[key] = append(kops[key], porcupine.Operation{ClientId: r.Client + 1, Input: in, Call: int64(r.Inv), Return: ret})
	}
	for _, r := range recs {
		switch r.Op.Kind {
		case "set":
			if r.Ok || r.Open {
				add(r.Op.Key, r, c14in{kind: "set", v: r.Val})
			}
		case "del":
			if r.Err == "" && !r.Open {
				add(r.Op.Key, r, c14in{kind: "del"})
			} else {
				add(r.Op.Key, r, c14in{kind: "delmaybe"})
			}
		case "get":
			if r.Open || r.Panic != "" || r.Exit {
				continue
			}
			if r.Ok {
				if l, ok := loaderVal[r.Val]; ok && l.Start < r.Ret && (l.End == 0 || l.End > r.Inv) {
					add(r.Op.Key, r, c14in{kind: "loadread", v: r.Val})
				} else {
					add(r.Op.Key, r, c14in{kind: "read", v: r.Val})
				}
			} else if r.Err == "" {
				add(r.Op.Key, r, c14in{kind: "miss"})
			}
		}
	}
	keys := make([]int, 0, len(kops))
	for k := range kops {
		keys = append(keys, k)
	}
	sort.Ints(keys)
	for _, k := range keys {
		ops := kops[k]
		if len(ops) > 60 {
			continue
		}
		switch porcupine.CheckOperationsTimeout(c14Model, ops, 5*time.Second) {
		case porcupine.Illegal:
			// is the violation attributable to values that came (back) from the secondary tier?
			// drop every read whose value had been fetched from the secondary store by then and check again
			cls := "memory"
			var mem []porcupine.Operation
			for _, o := range ops {
				in := o.Input.(c14in)
				fromSec := false
				if in.kind == "read" {
					for _, sr := range rd.Sec {
						if sr.Op == "get" && sr.Found && sr.Val == in.v && int64(sr.Seq) < o.Return {
							fromSec = true
						}
					}
				}
				if !fromSec {
					mem = append(mem, o)
				}
			}
			if len(mem) < len(ops) && porcupine.CheckOperationsTimeout(c14Model, mem, 5*time.Second) == porcupine.Ok {
				cls = "secondary-reads-only"
			}
			var sb strings.Builder
			sort.Slice(ops, func(i, j int) bool { return ops[i].Call < ops[j].Call })
			for _, o := range ops {
				in := o.Input.(c14in)
				fmt.Fprintf(&sb, "[c%d %s v=%d call=%d ret=%d] ", in.client, in.kind, in.v, o.Call, o.Return)
			}
			vs = append(vs, Violation{"C14/not-linearizable/" + cls + "," + fam, fmt.Sprintf("hybrid history of key %d is not linearizable (%s): %s", k, cls, sb.String())})
		case porcupine.Unknown:
			rd.Inconclusive++
		default:
			rd.Checked++
		}
	}
	return vs
}

// ---------------- C15 ----------------

func genC15(g *gen, tier string) *Scenario {
	sc := &Scenario{Sim: g.sim(), Params: map[string]int64{}}
	kind := pick(g, "hybrid", "hybridloading")
	sc.Cache = g.cache(kind)
	sc.Cache.MaxSize = int64(pick(g, 1, 2, 3, 4, 8))
	sc.Cache.Prob = 1
	sc.Cache.Workers = g.rng(1, 3)
	sc.Sim.Drift = pick(g, 0, 1, 2)
	if g.pct(25) {
		sc.Cache.Pool = true
		sc.Sim.PoolReuse = pick(g, 0, 0, 50, 100) // see genC14
	}
	failing := g.pct(35)
	sc.Family = kind + ",secondary-ok"
	if failing {
		sc.Family = kind + ",secondary-set-fails"
		sc.Stubs.SecSetErrPct = pick(g, 30, 50, 100)
		sc.Stubs.SecDelErrPct = pick(g, 0, 0, 40) // a failed secondary Delete must not leave the entry behind in the policy
	}
	sc.Params["failing"] = 0
	if failing {
		sc.Params["failing"] = 1
	}
	if kind == "hybridloading" {
		sc.Stubs.LoaderTTLPct = pick(g, 0, 40)
		sc.Stubs.LoaderTTL = pick(g, 3600*sec, 40*sec)
	}
	nc := g.rng(1, 3)
	per := g.rng(2, 6)
	nkeys := nc * per
	sc.Params["nkeys"] = int64(nkeys)
	ttls := []int64{3600 * sec, 86400 * sec, 600 * sec}
	sleepMax := 500
	if g.pct(40) {
		// deadlines that pass inside the run (in either tier), with sleeps long enough to cross them
		ttls = append(ttls, 1*sec, 2*sec, 1*sec)
		sleepMax = 3000
		sc.Family += ",short-ttls"
	}
	mixedCosts := g.pct(40) // the cost of a key changes between its writes
	if mixedCosts {
		sc.Cache.MaxSize = int64(pick(g, 3, 4, 6, 8))
		sc.Stubs.LoaderCostMax = 3
		// cost changes and the entry pool do not go together in an accounting rule: a cost UPDATE
		// queued for a recycled entry's previous life is applied to its new one (the weakness the
		// README documents; C02, C07 and C16 keep the pool off for the same reason)
		sc.Cache.Pool = false
	}
	for c := 0; c < nc; c++ {
		var ops []Op
		for n := g.rng(4, 24); n > 0; n-- {
			own := c*per + g.n(per)
			x := g.n(100)
			switch {
			case x < 50:
				op := Op{Kind: "set", Key: own, Cost: 1}
				if mixedCosts {
					op.Cost = int64(g.rng(1, 3))
				}
				if g.pct(35) {
					op.TTL = ttls[g.n(len(ttls))]
				}
				ops = append(ops, op)
			case x < 80:
				k := g.n(nkeys)
				if kind == "hybridloading" {
					k = own // a loading Get stores: keep one writer per key
				}
				ops = append(ops, Op{Kind: "get", Key: k})
			case x < 88:
				ops = append(ops, Op{Kind: "del", Key: own})
			default:
				ops = append(ops, Op{Kind: "sleep", Dur: int64(g.rng(1, sleepMax)) * ms})
			}
		}
		sc.Clients = append(sc.Clients, ops)
	}
	if g.pct(8) {
		// the hand-off queue between eviction and the workers (256 slots) overflows: a burst of
		// evictions while every secondary Set is slow. Entries that find no room are dropped, not
		// demoted - but they must leave memory, and memory must stay bounded and fully tracked
		sc.Family = kind + ",handoff-queue-overflow"
		sc.Params["failing"] = 1 // only the bounded-memory clauses are judged
		sc.Stubs.SecSetErrPct = pick(g, 0, 0, 30)
		sc.Stubs.SecSlowPct = 100
		sc.Stubs.SecSlowDur = int64(g.rng(20, 400)) * ms
		sc.Cache.Pool = false
		sc.Cache.WriteChan, sc.Cache.WriteBuf = 64, 128
		sc.Sim.MaxSteps = 5000000
		burst := []Op{{Kind: "sleep", Dur: int64(g.rng(0, 300)) * ms}, {Kind: "fill", Key: 1000, N: g.rng(300, 900)}}
		if kind == "hybridloading" {
			burst = []Op{{Kind: "sleep", Dur: int64(g.rng(0, 300)) * ms}, {Kind: "heat", Key: 1000, N: g.rng(300, 900), Cost: 1}}
		}
		sc.Clients = append(sc.Clients, burst)
	}
	ep := []Op{{Kind: "waitidle"}, {Kind: "wait"}, {Kind: "waitidle"}, {Kind: "snap", Label: "final"}, {Kind: "xsecdump"}}
	for k := 0; k < nkeys; k++ {
		ep = append(ep, Op{Kind: "get", Key: k})
	}
	ep = append(ep, Op{Kind: "waitidle"}, Op{Kind: "wait"}, Op{Kind: "waitidle"}, Op{Kind: "snap", Label: "after"})
	sc.Epilogue = ep
	return sc
}

func setupC15(env *simEnv) {
	rd := env.rd
	env.customOp = func(op Op, rec *Rec) {
		if env.api.secondary == nil {
			return
		}
		for i, k := range env.api.secondary.keys {
			rec.Pairs = append(rec.Pairs, KV{k, env.api.secondary.vals[i].v})
		}
		rec.N = rd.AsyncErrs
	}
}

func checkC15(rd *RunData) []Violation {
	return poolReuseSuffix(rd, checkC15x(rd))
}

func checkC15x(rd *RunData) []Violation {
	if rd.Res.Verdict != "ok" {
		return nil
	}
	var vs []Violation
	sn := rd.Snaps["final"]
	if sn == nil {
		return nil
	}
	kind := rd.Sc.Cache.Kind
	recs := sortedRecs(rd.Recs)
	var dump *Rec
	for i := range recs {
		if recs[i].Op.Kind == "xsecdump" {
			dump = &recs[i]
		}
	}
	if dump == nil {
		return nil
	}
	failing := rd.Sc.Params["failing"] == 1
	if failing {
		label := "secondary-set-fails"
		if strings.Contains(rd.Sc.Family, "handoff-queue-overflow") {
			label = "handoff-queue-overflow"
		}
		failed := 0
		for _, s := range rd.Sec {
			if s.Op == "set" && s.Err {
				failed++
			}
		}
		if failed > 0 {
			probe("c15.secondary-set-failed")
		}
		if after := rd.Snaps["after"]; after != nil {
			// no secondary Set is in progress at quiescence, so the counts can be compared
			if rd.AsyncErrs != failedSets(rd) {
				vs = append(vs, Violation{"C15/error-handler-count", fmt.Sprintf("%d secondary Set calls failed but HandleAsyncError was called %d times", failedSets(rd), rd.AsyncErrs)})
			}
		}
		var sum int64
		for _, e := range sn.Resident {
			sum += e.Weight
		}
		if sum > rd.Sc.Cache.MaxSize {
			vs = append(vs, Violation{"C15/unbounded-memory/" + label, fmt.Sprintf("at quiescence %d entries with total cost %d are resident in memory, MaxSize is %d (%d secondary Set calls failed)", len(sn.Resident), sum, rd.Sc.Cache.MaxSize, failed)})
		}
		for _, e := range residentErrors(sn) {
			if strings.HasPrefix(e, "untracked-resident") || strings.HasPrefix(e, "over-capacity") || strings.HasPrefix(e, "ghost") {
				vs = append(vs, Violation{"C15/unbounded-memory/" + classify(e) + "," + label, "at quiescence: " + e})
			}
		}
		return vs
	}
	// what is written to the secondary tier is the entry as it was stored: the value with the cost
	// of the call that stored it
	wcost := map[int64]int64{}
	for _, r := range recs {
		if r.Op.Kind == "set" && r.Ok {
			c := r.Op.Cost
			if c == 0 {
				c = costOf(r.Val)
			}
			wcost[r.Val] = c
		}
	}
	for _, l := range rd.Loader {
		if l.Outcome == "ok" {
			c := l.Cost
			if c == 0 {
				c = costOf(l.Val)
			}
			wcost[l.Val] = c
		}
	}
	for _, sr := range rd.Sec {
		if sr.Op != "set" || sr.Err {
			continue
		}
		if c, ok := wcost[sr.Val]; ok {
			probe("c15.demotion-cost-checked")
			if c != sr.Cost {
				vs = append(vs, Violation{"C15/demoted-with-wrong-cost/" + kind, fmt.Sprintf("key %d: value %d was stored with cost %d but written to the secondary tier with cost %d: after a promotion memory accounts the wrong cost", sr.Key, sr.Val, c, sr.Cost)})
				break
			}
		}
	}
	// working secondary: every key's latest value is in memory or in the secondary tier
	secv := map[int]int64{}
	inSec := map[int]bool{}
	for _, kv := range dump.Pairs {
		secv[kv.K], inSec[kv.K] = kv.V, true
	}
	mem := residentMap(sn)
	nkeys := int(rd.Sc.Params["nkeys"])
	// last write per key in effect order (single writer per key; loads are writes by the owner)
	type last struct {
		val    int64
		ttl    int64
		retT   int64
		del    bool
		origin string
		ok     bool
		ambig  bool
		inherit int64 // earliest deadline the latest value may have inherited (0: none)
	}
	lasts := map[int]*last{}
	evs := map[int][]c06ev{}
	for _, r := range recs {
		if r.Client >= 0 && (r.Op.Kind == "set" || r.Op.Kind == "del") && r.Op.Key < nkeys && (r.Op.Kind == "del" || r.Ok) {
			evs[r.Op.Key] = append(evs[r.Op.Key], c06ev{kind: r.Op.Kind, inv: r.Inv, ret: r.Ret, invT: r.InvT, retT: r.RetT, ttl: r.Op.TTL, val: r.Val, ok: r.Err == "" && !r.Open})
		}
	}
	for _, l := range rd.Loader {
		if l.Outcome == "ok" && l.End != 0 && l.Start < dump.Inv {
			evs[l.Key] = append(evs[l.Key], c06ev{kind: "load", inv: l.Start, ret: l.End, invT: l.StartT, retT: l.EndT, ttl: l.TTL, val: l.Val, ok: true})
		}
	}
	for k, es := range evs {
		sort.Slice(es, func(i, j int) bool { return es[i].inv < es[j].inv })
		la := &last{}
		for i, e := range es {
			if i+1 < len(es) && es[i+1].inv < e.ret {
				la.ambig = true
			}
		}
		e := es[len(es)-1]
		la.val, la.ttl, la.retT, la.del, la.ok = e.val, e.ttl, e.retT, e.kind == "del", e.ok
		// a write without TTL keeps the deadline of the entry it updates in place: the latest value
		// may carry the deadline of any earlier write since the last Delete
		for i := len(es) - 1; i >= 0 && es[i].kind != "del"; i-- {
			if es[i].ttl > 0 && (la.inherit == 0 || es[i].retT+es[i].ttl < la.inherit) {
				la.inherit = es[i].retT + es[i].ttl - 2*es[i].ttl/100 // earliest such deadline (minus slack for the call's duration)
				if es[i].inv > 0 {
					la.inherit = es[i].retT + es[i].ttl - (es[i].retT - es[i].invT)
				}
			}
			if es[i].kind == "load" {
				break // the loader only runs when the key is absent or expired: a load starts a fresh deadline
			}
		}
		la.origin = e.kind
		lasts[k] = la
	}
	endT := dump.InvT
	epiGets := map[int]Rec{}
	for _, r := range recs {
		if r.Client == -1 && r.Op.Kind == "get" && r.Inv > dump.Ret {
			epiGets[r.Op.Key] = r
		}
	}
	keys := make([]int, 0, len(lasts))
	for k := range lasts {
		keys = append(keys, k)
	}
	sort.Ints(keys)
	for _, k := range keys {
		la := lasts[k]
		if la.ambig || la.del || !la.ok {
			continue
		}
		ttlc := "no-ttl"
		if la.ttl > 0 {
			ttlc = "ttl"
		}
		if la.inherit != 0 && endT+120*sec >= la.inherit { // it may be (close to) expired: not decidable
			probe("c15.key-may-have-expired")
			continue
		}
		cls := la.origin + "," + ttlc + "," + kind
		probe("c15.key-checked")
		if m := mem[k]; m != nil && m.V == la.val {
			continue // still in memory
		}
		probe("c15.key-left-memory")
		if !inSec[k] || secv[k] != la.val {
			vs = append(vs, Violation{"C15/not-demoted/" + cls, fmt.Sprintf("key %d: latest value %d (stored by %s) is no longer in memory and the secondary tier holds %v (present=%v): it was evicted without being written to the secondary tier", k, la.val, la.origin, secv[k], inSec[k])})
			continue
		}
		if g, ok := epiGets[k]; ok {
			loaded := false
			for _, l := range rd.Loader {
				if l.Key == k && l.Start > g.Inv && l.Start < g.Ret {
					loaded = true
				}
			}
			if !g.Ok || g.Val != la.val || loaded {
				vs = append(vs, Violation{"C15/not-promoted/" + cls, fmt.Sprintf("key %d: value %d is in the secondary tier (and not in memory) but Get returned v=%d hit=%v err=%q, loader invoked: %v", k, la.val, g.Val, g.Ok, g.Err, loaded)})
			} else {
				probe("c15.promoted")
			}
		}
	}
	return vs
}

func failedSets(rd *RunData) int {
	n := 0
	for _, s := range rd.Sec {
		if s.Op == "set" && s.Err {
			n++
		}
	}
	return n
}
