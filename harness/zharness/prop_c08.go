package main

import (
	"fmt"
	"sort"

	"github.com/Yiling-J/theine-go/internal"
	"verifsim/simrt"
)

// C08 - read events keep reaching the policy; the lossy buffer never invents
// or wedges.
//
// BufferSim: the real Buffer alone, 2-6 reader tasks on one stripe, every
// atomic operation of buffer.go a scheduling point, the batch handed back
// late (the holder "waits for the policy lock"). Store family: one stripe,
// several readers, the policy lock stalled by a slow removal listener; after
// quiescence further hits must again reach the policy.

func init() {
	props["C08"] = &propDef{gen: genC08, setup: setupC08, check: checkC08}
	runners["buffer"] = runBufferScenario
}

const bufCap = 16 // the property's batch bound ("a delivered batch never exceeds 16 items")

func genC08(g *gen, tier string) *Scenario {
	if g.pct(65) {
		return genBuffer(g, tier)
	}
	return genC08Store(g, tier)
}

func genBuffer(g *gen, tier string) *Scenario {
	sc := &Scenario{Family: "buffer", Runner: "buffer", Sim: g.sim(), Params: map[string]int64{}}
	sc.Sim.AtomicFiles = []string{"buffer.go"}
	sc.Sim.Drift = 0
	if g.pct(50) {
		sc.Sim.Sched = simrt.SchedUniform
	}
	nc := g.rng(2, 4)
	maxAdds := 24
	if tier == "thorough" {
		nc = g.rng(2, 6)
		maxAdds = 40
	}
	holdPct := pick(g, 0, 30, 60, 100)
	for c := 0; c < nc; c++ {
		var ops []Op
		for n := g.rng(1, maxAdds); n > 0; n-- {
			op := Op{Kind: "badd"}
			if g.pct(holdPct) {
				op.N = g.rng(1, 60) // hold the batch for this many scheduling points before Free
			}
			ops = append(ops, op)
		}
		sc.Clients = append(sc.Clients, ops)
	}
	return sc
}

func runBufferScenario(sc *Scenario) *RunData {
	rd := &RunData{Sc: sc, Snaps: map[string]*Snap{}, SnapAt: map[string]uint64{}}
	rd.Res = simrt.Run(simConfig(sc), func() {
		b := internal.NewWBBufferSim()
		added := map[uint64]bool{}
		delivered := map[uint64]int{}
		holder := -1
		batches := 0
		record := func(c int, batch []uint64) {
			batches++
			if holder != -1 {
				rd.violate("C08/two-holders", fmt.Sprintf("reader %d obtained a batch while reader %d still holds the previous one (token not handed back)", c, holder))
			}
			holder = c
			if len(batch) > bufCap {
				rd.violate("C08/batch-too-large", fmt.Sprintf("a delivered batch holds %d items (> %d)", len(batch), bufCap))
			}
			for _, id := range batch {
				if !added[id] {
					rd.violate("C08/invented-item", fmt.Sprintf("delivered item %#x was never added", id))
				}
				delivered[id]++
				if delivered[id] > 1 {
					rd.violate("C08/delivered-twice", fmt.Sprintf("item %#x (reader %d, add #%d) was delivered %d times", id, id>>20, id&0xfffff, delivered[id]))
				}
			}
			probeN("c08.delivered", len(batch))
		}
		var ts []*simrt.Task
		for c, ops := range sc.Clients {
			c, ops := c, ops
			ts = append(ts, simrt.GoH(fmt.Sprintf("reader%d", c), func() {
				for i, op := range ops {
					id := uint64(c+1)<<20 | uint64(i+1)
					added[id] = true
					batch, got := b.Add(id)
					if got {
						record(c, batch)
						for n := op.N; n > 0; n-- {
							simrt.Yield(simrt.KStub)
						}
						if op.N > 0 {
							simrt.Fault("buffer.free-delayed")
						}
						holder = -1
						b.Free()
					}
				}
			}))
		}
		for _, t := range ts {
			simrt.Join(t)
		}
		h, t, free := b.State()
		if !free {
			rd.violate("C08/token-lost", "every reader has handed its batch back but the token is not free")
			return
		}
		if t-h >= bufCap {
			probe("c08.full-at-quiescence")
		}
		if h > t {
			rd.violate("C08/ring-corrupt/head-beyond-tail", fmt.Sprintf("after the burst the ring's head (%d) is beyond its tail (%d): every later Add sees a full ring", h, t))
			return
		}
		// liveness once the burst is over: a single reader must get a batch that
		// delivers hits (an empty batch records nothing) within a bounded number of further hits
		gotOne := false
		for i := 0; i < 3*bufCap; i++ {
			id := uint64(99)<<20 | uint64(i+1)
			added[id] = true
			batch, got := b.Add(id)
			if got {
				record(99, batch)
				holder = -1
				b.Free()
				if len(batch) > 0 {
					gotOne = true
					break
				}
			}
		}
		if !gotOne {
			h2, t2, _ := b.State()
			rd.violate("C08/wedged-stripe/buffer", fmt.Sprintf("after the burst ended (all batches handed back, head=%d tail=%d before, head=%d tail=%d after) %d further Adds by a single reader delivered nothing: the stripe can no longer record hits", h, t, h2, t2, 3*bufCap))
		}
		rd.Nontrivial = -1
		if batches > 0 {
			rd.Nontrivial = 1
		}
	})
	return rd
}

// ---------------- store family ----------------

func genC08Store(g *gen, tier string) *Scenario {
	sc := &Scenario{Family: "store-stripe", Sim: g.sim(), Params: map[string]int64{}}
	sc.Cache = g.cache(pick(g, "plain", "plain", "loading"))
	sc.Cache.Stripes = pick(g, 1, 1, 2, 4)
	sc.Cache.MaxSize = int64(pick(g, 3, 4, 6, 8))
	sc.Cache.WriteBuf = pick(g, 1, 4, 16)
	sc.Stubs.ListenerSlowPct = pick(g, 0, 50, 100)
	sc.Stubs.ListenerSlowDur = int64(g.rng(200, 5000)) * ms
	if g.pct(40) {
		sc.Sim.AtomicFiles = []string{"buffer.go"}
	}
	hot := g.rng(1, 2)
	if g.pct(40) {
		hot = g.rng(4, 12) // few hits per key: the frequency counters stay below their ceiling
	}
	if g.pct(30) {
		sc.Cache.Pool = true
		sc.Sim.PoolReuse = pick(g, 50, 100)
		sc.Family = "store-stripe+pool"
	}
	saves := g.pct(25)
	if saves {
		sc.Family += "+save"
	}
	if sc.Cache.Kind == "loading" && g.pct(50) {
		// loaded values expire inside the run: a read of an expired, not yet reclaimed entry is a miss
		sc.Stubs.LoaderTTLPct = pick(g, 50, 100)
		sc.Stubs.LoaderTTL = int64(g.rng(100, 900)) * ms
		sc.Family += "+ttl"
	}
	nc := g.rng(2, 4)
	if tier == "thorough" {
		nc = g.rng(2, 6)
	}
	for c := 0; c < nc; c++ {
		var ops []Op
		if c == 0 {
			for k := 0; k < hot; k++ {
				ops = append(ops, Op{Kind: "set", Key: k, Cost: 1})
			}
		}
		for n := g.rng(10, 60); n > 0; n-- {
			switch x := g.n(100); {
			case x < 75:
				ops = append(ops, Op{Kind: "get", Key: g.n(hot)})
			case x < 95:
				ops = append(ops, Op{Kind: "set", Key: 10 + g.n(40), Cost: 1})
			default:
				ops = append(ops, Op{Kind: "sleep", Dur: int64(g.rng(1, 300)) * ms})
			}
		}
		if c == nc-1 && saves {
			// SaveCache while hits are pending in half-filled stripes: a snapshot must not consume,
			// replay or duplicate them
			for n := g.rng(1, 4); n > 0; n-- {
				at := g.n(len(ops) + 1)
				ops = append(ops[:at], append([]Op{{Kind: "save", Key: 1}}, ops[at:]...)...)
			}
		}
		sc.Clients = append(sc.Clients, ops)
	}
	// after the burst: make key 0 resident again, let everything drain, then
	// 64 sequential hits on it
	ep := []Op{{Kind: "waitidle"}, {Kind: "wait"}, {Kind: "set", Key: 0, Cost: 1}, {Kind: "wait"}, {Kind: "waitidle"}, {Kind: "snap", Label: "before"}}
	if sc.Stubs.LoaderTTLPct > 0 {
		// a TTL-less Set keeps the deadline of a loaded entry it updates: start from a fresh entry
		ep = append([]Op{{Kind: "waitidle"}, {Kind: "del", Key: 0}}, ep...)
	}
	for i := 0; i < 4*bufCap*sc.Cache.Stripes; i++ {
		ep = append(ep, Op{Kind: "get", Key: 0})
	}
	ep = append(ep, Op{Kind: "waitidle"}, Op{Kind: "snap", Label: "after"})
	sc.Epilogue = ep
	return sc
}

func setupC08(env *simEnv) {}

func checkC08(rd *RunData) []Violation {
	if rd.Sc.Runner != "" || rd.Res.Verdict != "ok" {
		return nil
	}
	before, after := rd.Snaps["before"], rd.Snaps["after"]
	if before == nil || after == nil || len(before.Stripes) == 0 {
		return nil
	}
	var vs []Violation
	ns := len(before.Stripes)
	// at quiescence nobody holds a batch: every stripe's token must have been handed back
	for i, st := range before.Stripes {
		if !st.TokenFree {
			vs = append(vs, Violation{"C08/wedged-stripe/store,token-not-handed-back", fmt.Sprintf("the cache is idle (no call in progress) but stripe %d of %d still has its batch out (head=%d tail=%d): no later hit on it can be delivered", i, ns, st.Head, st.Tail)})
		}
		if st.Head > st.Tail {
			vs = append(vs, Violation{"C08/ring-corrupt/head-beyond-tail,store", fmt.Sprintf("stripe %d: head %d is beyond tail %d", i, st.Head, st.Tail)})
		}
	}
	if len(vs) > 0 {
		return vs
	}
	vs = append(vs, c08Conservation(rd, after)...)
	if len(vs) > 0 {
		return vs
	}
	// every one of the epilogue reads must have hit for the delivery check to apply
	hits := 0
	for _, r := range rd.Recs {
		if r.Client == -1 && r.Op.Kind == "get" && r.Ok {
			hits++
		}
	}
	if hits < 4*bufCap*ns {
		probe("c08.epilogue-key-not-resident")
		return nil
	}
	advanced := uint64(0)
	for i := range after.Stripes {
		b, a := before.Stripes[i], after.Stripes[i]
		advanced += a.Head - b.Head
		// a single sequential reader always finds the token free, so whoever fills a ring drains it:
		// a ring that is (still) full now can no longer record hits
		if a.Tail-a.Head >= bufCap {
			cls := "ring-not-full-before"
			if b.Tail-b.Head >= bufCap {
				cls = "ring-full-token-free"
			}
			vs = append(vs, Violation{"C08/wedged-stripe/store," + cls, fmt.Sprintf("after the burst ended and the cache went idle (stripe %d of %d: head=%d tail=%d tokenFree=%v), %d further sequential hits left it full (head=%d tail=%d): hits on this stripe are no longer delivered to the policy", i, ns, b.Head, b.Tail, b.TokenFree, hits, a.Head, a.Tail)})
		}
	}
	if len(vs) > 0 {
		return vs
	}
	if advanced == 0 {
		vs = append(vs, Violation{"C08/wedged-stripe/store,nothing-delivered", fmt.Sprintf("%d sequential hits over %d stripes after the burst delivered nothing to the policy", hits, ns)})
		return vs
	}
	probe("c08.epilogue-delivered")
	// delivered: the key's standing must have improved - it is now the most
	// recently used entry of the window or of the protected region
	ok := false
	where := ""
	for _, rg := range after.Regions {
		for i, e := range rg.Entries {
			if e.Key == 0 {
				where = fmt.Sprintf("%s[%d]", rg.Name, i)
				if i == 0 && (rg.Name == "window" || rg.Name == "protected") {
					ok = true
				}
			}
		}
	}
	if !ok && where == "" {
		// key 0 left the cache between the hits and the final snapshot: in the loading families the
		// epilogue's Set can be refused by the policy and the first Get loads the key with the
		// loader's TTL, which runs out while the cache goes idle (slow listener). Not a statement
		// about the read buffer
		for _, l := range rd.Loader {
			if l.Key == 0 && l.TTL > 0 && l.Start > rd.SnapAt["before"] {
				probe("c08.epilogue-key-expired")
				return vs
			}
		}
	}
	if !ok {
		vs = append(vs, Violation{"C08/hits-without-effect", fmt.Sprintf("%d hits on key 0 were delivered to the policy (stripe heads advanced by %d) but the key's standing did not improve: it is at %q", hits, advanced, where)})
	}
	return vs
}

// c08Conservation: every event the buffer delivers corresponds to one real hit, once.
//
// (a) the frequency counters: a counter only moves when the policy is told about an insert or
// a hit of a key that maps to it (it saturates, and ageing halves it, which only lowers it).
// So its value is at most the number of such calls in the history, summed over the keys that
// share the counter (positions taken from the real sketch, so collisions are accounted
// exactly). A batch applied twice, or an event invented, pushes a counter above that bound.
// (b) an entry reaches the protected region only through a delivered hit on it: a key that no
// Get ever hit must not be there.
//
//go:norace
func c08Conservation(rd *RunData, after *Snap) []Violation {
	if simrt.RaceEnabled || rd.Store == nil {
		return nil
	}
	var vs []Violation
	events := map[int]int{}
	hits := map[int]int{}
	for _, r := range rd.Recs {
		switch r.Op.Kind {
		case "set":
			events[r.Op.Key]++
		case "get":
			if r.Ok || r.Open {
				events[r.Op.Key]++
				// a loading Get that ran the loader itself found nothing to hit
				ran := false
				if r.Client >= -1 {
					for _, l := range rd.Loader {
						if l.Key == r.Op.Key && l.Task == rd.ClientTask[r.Client+1] && l.Start > r.Inv && (r.Open || l.Start < r.Ret) {
							ran = true
						}
					}
				}
				if !ran {
					hits[r.Op.Key]++
				}
			}
		}
	}
	for _, l := range rd.Loader {
		events[l.Key]++
	}
	bound := map[uint32]int{}
	type kc struct {
		pos [4]uint32
		val [4]uint
	}
	kcs := map[int]kc{}
	keys := make([]int, 0, len(events))
	for k := range events {
		keys = append(keys, k)
	}
	sort.Ints(keys)
	for _, k := range keys {
		p, v := internal.SketchCounters(rd.Store, k)
		kcs[k] = kc{p, v}
		for _, c := range p {
			bound[c] += events[k]
		}
	}
	for _, k := range keys {
		x := kcs[k]
		for i, c := range x.pos {
			if int(x.val[i]) > bound[c] {
				vs = append(vs, Violation{"C08/event-not-a-real-hit/frequency-counter," + rd.Sc.Family, fmt.Sprintf("frequency counter %d (row %d of key %d) stands at %d, but the whole history contains only %d inserts and hits of keys that map to it (key %d: %d sets/loads/hits): a batch was delivered more than once or an event was invented", c, i, k, x.val[i], bound[c], k, events[k])})
				return vs
			}
		}
		probe("c08.counter-within-history")
	}
	for _, rg := range after.Regions {
		if rg.Name != "protected" {
			continue
		}
		for _, e := range rg.Entries {
			if hits[e.Key] == 0 {
				vs = append(vs, Violation{"C08/event-not-a-real-hit/promoted-without-hit," + rd.Sc.Family, fmt.Sprintf("key %d is in the protected region although no Get ever hit it: a hit was credited to the wrong entry", e.Key)})
			}
		}
	}
	return vs
}
