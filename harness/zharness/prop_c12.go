package main

import (
	"errors"
	"fmt"
	"io"
	"os"
	"sort"
	"time"

	theine "github.com/Yiling-J/theine-go"
	"github.com/Yiling-J/theine-go/internal"
	"verifsim/simrt"
)

// C12 - a damaged or truncated stream is never loaded as wrong data.
//
// Fault enumeration on the simulated disk: one run saves one cache (brought
// into its state by simulated use, at a simulated uptime) with the real
// SaveCache and then loads EVERY truncation, EVERY single-bit flip, byte
// overwrites at every position, multi-byte damage and whole-segment edits of
// that stream into fresh caches, each also under another version number.

func init() {
	props["C12"] = &propDef{gen: genC12, setup: setupC12, check: func(rd *RunData) []Violation { return nil }}
}

func genC12(g *gen, tier string) *Scenario {
	sc := &Scenario{Sim: SimCfg{Sched: simrt.SchedSticky, SwitchPct: 5, Drift: 1}, Params: map[string]int64{}}
	sc.Cache = g.cache(pick(g, "plain", "plain", "loading"))
	sc.Cache.Listener = false
	sc.Cache.MaxSize = int64(pick(g, 4, 8, 16, 50))
	sc.Cache.WriteChan, sc.Cache.WriteBuf, sc.Cache.Stripes = 8, 16, 1
	shape := pick(g, "empty", "one", "no-ttl", "ttl", "mixed", "mixed")
	sc.Family = "stream-" + shape
	// simulated uptime of the saving cache before it is filled: the clock origin matters
	uptime := pick(g, int64(0), int64(g.rng(1, 100))*sec, int64(g.rng(1, 48))*3600*sec, int64(g.rng(2, 30))*86400*sec)
	sc.Params["uptime"] = uptime
	var ops []Op
	if uptime > 0 {
		ops = append(ops, Op{Kind: "advance", Dur: uptime})
	}
	n := 0
	switch shape {
	case "one":
		n = 1
	case "no-ttl", "ttl":
		n = g.rng(2, 6)
	case "mixed":
		n = g.rng(3, 12)
		if tier == "thorough" {
			n = g.rng(3, 40)
		}
	}
	ttls := []int64{5 * sec, 90 * sec, 2 * 3600 * sec, 3 * 86400 * sec, 20 * 86400 * sec}
	for i := 0; i < n; i++ {
		op := Op{Kind: "set", Key: g.n(1000), Cost: 1}
		if shape == "ttl" || (shape == "mixed" && g.pct(50)) || (shape == "one" && g.pct(50)) {
			op.TTL = ttls[g.n(len(ttls))]
		}
		ops = append(ops, op)
		if g.pct(40) {
			ops = append(ops, Op{Kind: "get", Key: op.Key})
		}
	}
	if n > 0 && g.pct(70) {
		// enough reads (the lossy read buffer hands hits to the policy 16 at a time) for entries to be
		// promoted to the protected region, so that every block type appears in the stream
		var keys []int
		for _, o := range ops {
			if o.Kind == "set" {
				keys = append(keys, o.Key)
			}
		}
		for i := g.rng(20, 70); i > 0; i-- {
			ops = append(ops, Op{Kind: "get", Key: keys[g.n(len(keys))]})
		}
	}
	if (tier == "thorough" && g.pct(2)) || os.Getenv("VERIF_FORCE_MULTIBLOCK") != "" {
		// a stream spanning several 4 MiB blocks: ~170 k entries
		sc.Family = "stream-multi-block"
		sc.Cache.MaxSize = 400000
		sc.Cache.WriteChan, sc.Cache.WriteBuf = 64, 128
		ops = append(ops, Op{Kind: "xfill", Key: 5000, N: g.rng(200000, 260000), TTL: 40 * 86400 * sec})
	}
	sc.Clients = [][]Op{ops}
	sc.Params["version"] = int64(g.rng(0, 3))
	sc.Params["altversion"] = sc.Params["version"] + int64(g.rng(1, 5))
	// time between save and load ("restart")
	sc.Params["gap"] = pick(g, int64(0), int64(g.rng(1, 3000))*ms, int64(g.rng(1, 80))*sec)
	sc.Params["mode"] = int64(g.n(4))
	sc.Epilogue = []Op{{Kind: "waitidle"}, {Kind: "wait"}, {Kind: "waitidle"}, {Kind: "xenum"}}
	sc.Sim.MaxSteps = 1 << 40
	return sc
}

type savedEntry struct {
	v    int64
	wall int64 // wall-clock deadline (clock origin + relative deadline); 0 = none
	cost int64
}

func savedSet(sn *Snap) map[int]savedEntry {
	m := map[int]savedEntry{}
	for _, e := range sn.Resident {
		w := int64(0)
		if e.Expire != 0 {
			w = sn.ClockStart + e.Expire
		}
		m[e.Key] = savedEntry{e.Value, w, e.Weight}
	}
	return m
}

type loadResult struct {
	err      error
	panicked string
	sn       *Snap
}

//go:norace
func setupC12(env *simEnv) {
	rd := env.rd
	env.customOp = func(op Op, rec *Rec) {
		if simrt.RaceEnabled {
			return
		}
		if op.Kind == "xfill" {
			fillCache(env, op)
			return
		}
		version := uint64(rd.Sc.Params["version"])
		alt := uint64(rd.Sc.Params["altversion"])
		S := internal.Snapshot(rd.Store)
		saved := savedSet(S)
		for _, rg := range S.Regions {
			probeN("c12.saved-in-"+rg.Name, len(rg.Entries))
		}
		disk := newSimDisk()
		if err := env.api.save(version, disk.writer(0)); err != nil {
			rd.violate("C12/harness/save-failed", err.Error())
			return
		}
		stream := append([]byte(nil), disk.data...)
		bounds := append([]int(nil), disk.boundaries...)
		// writer faults (before any simulated time passes, so the cache is still the one
		// that was saved): disk full after n bytes - SaveCache must report it; what reached
		// the disk is judged as a truncation below
		var writePrefixes [][]byte
		{
			L0 := len(stream)
			wf := map[int]bool{}
			for _, b := range bounds {
				wf[b-1] = true
				wf[b] = true
			}
			for i := 0; i < 24 && L0 > 0; i++ {
				wf[simrt.MiscRng().Intn(L0)] = true
			}
			wfs := make([]int, 0, len(wf))
			for n := range wf {
				if n >= 0 && n < L0 {
					wfs = append(wfs, n)
				}
			}
			sort.Ints(wfs)
			for _, n := range wfs {
				d := newSimDisk()
				d.failAfter = n
				err := env.api.save(version, d.writer(0))
				simrt.Fault("disk.write-error")
				if len(d.data) > n || (len(d.data) == n && err == nil) {
					rd.violate("C12/write-error-swallowed", fmt.Sprintf("the writer failed after %d of %d bytes but SaveCache returned %v", n, L0, err))
				}
				if len(d.data) < L0 && string(d.data) == string(stream[:len(d.data)]) {
					writePrefixes = append(writePrefixes, append([]byte(nil), d.data...))
				}
			}
		}
		if gap := rd.Sc.Params["gap"]; gap > 0 {
			simrt.AdvanceTime(gap)
		}
		evals := int64(len(writePrefixes))
		cfg := rd.Sc.Cache
		load := func(b []byte, ver uint64, chunk int, failAt int) loadResult {
			evals++
			api2, err := buildCacheCfg(rd, cfg)
			if err != nil {
				return loadResult{err: err}
			}
			var res loadResult
			func() {
				defer func() {
					if r := recover(); r != nil {
						res.panicked = fmt.Sprint(r)
					}
				}()
				if simrt.MiscRng().Intn(4) == 0 {
					// the loading cache is not always a virgin: it may have saved itself under its
					// own version before it is handed somebody else's stream
					_ = api2.save(ver, io.Discard)
					probe("c12.loader-saved-before-load")
				}
				r := &diskReader{data: b, chunk: chunk}
				if failAt >= 0 {
					r.d = &simDisk{failAfter: -1, readFailAt: failAt}
				}
				res.err = api2.load(ver, r)
			}()
			res.sn = internal.Snapshot(api2.store)
			api2.store.Close()
			return res
		}
		// judge one load result against the saved set
		judge := func(kind string, truncated bool, wrongVersion bool, res loadResult) {
			if res.panicked != "" {
				rd.violate("C12/panic/"+kind, fmt.Sprintf("LoadCache panicked on a %s stream: %s", kind, firstLine(res.panicked)))
				return
			}
			origin := ""
			if res.sn.ClockStart != S.ClockStart && len(res.sn.Resident) > 0 {
				origin = ",clock-origin-not-adopted"
			}
			if wrongVersion {
				if res.err == nil || len(res.sn.Resident) > 0 {
					rd.violate("C12/version-not-checked/"+kind+origin, fmt.Sprintf("a %s stream saved under version %d was loaded under version %d: err=%v, %d entries loaded (want an error and nothing loaded)", kind, version, alt, res.err, len(res.sn.Resident)))
				}
				return
			}
			if truncated && res.err == nil {
				rd.violate("C12/truncated-stream-accepted/"+kind, fmt.Sprintf("LoadCache returned nil for a proper prefix of the saved stream (%s); %d of %d entries loaded", kind, len(res.sn.Resident), len(saved)))
			}
			werr := "ok"
			if res.err != nil {
				werr = "with-error"
			}
			for _, e := range res.sn.Resident {
				s, ok := saved[e.Key]
				if !ok {
					rd.violate("C12/invented-key/"+kind+","+werr+origin, fmt.Sprintf("%s stream: loaded key %d (value %d) was not in the saved cache (err=%v)", kind, e.Key, e.Value, res.err))
					continue
				}
				if s.v != e.Value {
					rd.violate("C12/wrong-data/"+kind+","+werr+origin, fmt.Sprintf("%s stream: key %d loaded with value %d, saved value %d (err=%v)", kind, e.Key, e.Value, s.v, res.err))
				}
				w := int64(0)
				if e.Expire != 0 {
					w = res.sn.ClockStart + e.Expire
				}
				switch {
				case w == s.wall:
				case s.wall != 0 && (w == 0 || w > s.wall):
					rd.violate("C12/longer-lifetime/"+kind+","+werr+origin, fmt.Sprintf("%s stream: key %d saved with wall-clock deadline %d loaded with deadline %d (%.3fs later; 0 = never) (err=%v)", kind, e.Key, s.wall, w, float64(w-s.wall)/1e9, res.err))
				default:
					rd.violate("C12/wrong-deadline/"+kind+","+werr+origin, fmt.Sprintf("%s stream: key %d saved with wall-clock deadline %d loaded with deadline %d (err=%v)", kind, e.Key, s.wall, w, res.err))
				}
			}
		}
		// 0. the undamaged stream loads, also through short reads; wrong version is refused
		chunks := []int{0, 1, 3, 7, 64}
		if len(stream) > 64<<10 {
			chunks = []int{0, 4093}
		}
		for _, chunk := range chunks {
			res := load(stream, version, chunk, -1)
			if res.err != nil || res.panicked != "" {
				rd.violate("C12/clean-stream-rejected", fmt.Sprintf("the undamaged stream (read in chunks of %d) was not loaded: err=%v panic=%s", chunk, res.err, res.panicked))
				return
			}
			judge("undamaged", false, false, res)
		}
		res := load(stream, alt, 0, -1)
		if !errors.Is(res.err, theine.VersionMismatch) {
			rd.violate("C12/version-not-checked/undamaged", fmt.Sprintf("undamaged stream saved under version %d loaded under version %d: err=%v (want VersionMismatch)", version, alt, res.err))
		}
		judge("undamaged", false, true, res)
		probeN("c12.stream-bytes", len(stream))
		probeN("c12.saved-entries", len(saved))

		L := len(stream)
		// streams up to 64 KiB: every position. Larger (multi-block) streams: every position in the
		// first 512 and last 256 bytes and within 64 bytes of every write boundary, plus 300 seeded ones.
		exhaustive := L <= 64<<10
		var positions []int
		if exhaustive {
			for i := 0; i < L; i++ {
				positions = append(positions, i)
			}
		} else {
			seen := map[int]bool{}
			add := func(i int) {
				if i >= 0 && i < L && !seen[i] {
					seen[i] = true
					positions = append(positions, i)
				}
			}
			for i := 0; i < 512; i++ {
				add(i)
			}
			for i := L - 256; i < L; i++ {
				add(i)
			}
			for _, b := range bounds {
				for d := -64; d <= 64; d += 4 {
					add(b + d)
				}
				add(b - 1)
				add(b)
				add(b + 1)
			}
			for i := 0; i < 300; i++ {
				add(simrt.MiscRng().Intn(L))
			}
			sort.Ints(positions)
			// a load of a multi-block stream costs ~0.1 s: thin the set to about 700 positions
			for len(positions) > 400 {
				var thin []int
				for i, x := range positions {
					if i%2 == 0 {
						thin = append(thin, x)
					}
				}
				positions = thin
			}
			probe("c12.multi-block-stream")
		}
		// 1. crash during save: every truncation offset
		for _, n := range positions {
			judge("truncated", true, false, load(stream[:n], version, 0, -1))
			if n%4 == 0 {
				judge("truncated", true, true, load(stream[:n], alt, 0, -1))
			}
		}
		probeN("c12.truncations", len(positions))
		// reader fails at offset n (the bytes are intact, the device is not)
		for pi := 0; pi < len(positions); pi += 3 {
			n := positions[pi]
			r := load(stream, version, 4096, n)
			if r.err == nil {
				rd.violate("C12/read-error-swallowed", fmt.Sprintf("the reader failed at offset %d of %d but LoadCache returned nil", n, L))
			}
			judge("read-error", false, false, r)
		}
		for _, pfx := range writePrefixes {
			judge("truncated", true, false, load(pfx, version, 0, -1))
		}
		// 2. bit rot: every single-bit flip at every byte
		buf := make([]byte, L)
		for _, i := range positions {
			for bit := 0; bit < 8; bit++ {
				if !exhaustive && bit != i%8 && bit != (i/8)%8 {
					continue // large stream: two bits per sampled byte
				}
				copy(buf, stream)
				buf[i] ^= 1 << bit
				judge("bit-flip", false, false, load(buf, version, 0, -1))
				if (i+bit)%8 == 0 {
					judge("bit-flip", false, true, load(buf, alt, 0, -1))
				}
			}
		}
		if exhaustive {
			probeN("c12.bit-flips", 8*L)
		} else {
			probeN("c12.bit-flips", 2*len(positions))
		}
		// single-byte overwrites
		for pi, i := range positions {
			if !exhaustive && pi%3 != 0 {
				continue
			}
			for _, nv := range []byte{0x00, 0xff, byte(simrt.MiscRng().Intn(256))} {
				if nv == stream[i] {
					continue
				}
				copy(buf, stream)
				buf[i] = nv
				judge("byte-overwrite", false, false, load(buf, version, 0, -1))
			}
		}
		probeN("c12.byte-overwrites", 3*len(positions))
		// multi-byte damage
		nmulti := 300
		if !exhaustive {
			nmulti = 60
		}
		for i := 0; i < nmulti; i++ {
			copy(buf, stream)
			at := simrt.MiscRng().Intn(L)
			n := 2 + simrt.MiscRng().Intn(63)
			for j := at; j < at+n && j < L; j++ {
				buf[j] = byte(simrt.MiscRng().Intn(256))
			}
			judge("multi-byte", false, false, load(buf, version, 0, -1))
			if i%4 == 0 {
				judge("multi-byte", false, true, load(buf, alt, 0, -1))
			}
		}
		probeN("c12.multi-byte", nmulti)
		// 3. segment-level edits at the writer's call boundaries: drop, duplicate, swap
		segs := [][]byte{}
		prev := 0
		for _, b := range bounds {
			if b > prev {
				segs = append(segs, stream[prev:b])
				prev = b
			}
		}
		join := func(idx []int) []byte {
			var out []byte
			for _, i := range idx {
				out = append(out, segs[i]...)
			}
			return out
		}
		ns := len(segs)
		ident := make([]int, ns)
		for i := range ident {
			ident[i] = i
		}
		edits := 0
		edit := func(kind string, idx []int) {
			edits++
			b := join(idx)
			judge(kind, false, false, load(b, version, 0, -1))
			judge(kind, false, true, load(b, alt, 0, -1))
		}
		for i := 0; i < ns; i++ {
			// drop segment i
			var idx []int
			idx = append(idx, ident[:i]...)
			idx = append(idx, ident[i+1:]...)
			edit("segment-dropped", idx)
			// duplicate segment i
			idx = nil
			idx = append(idx, ident[:i+1]...)
			idx = append(idx, ident[i:]...)
			edit("segment-duplicated", idx)
			for j := i + 1; j < ns && j < i+4; j++ {
				idx = append([]int(nil), ident...)
				idx[i], idx[j] = idx[j], idx[i]
				edit("segments-swapped", idx)
			}
		}
		probeN("c12.segment-edits", edits)
		probeN("c12.segments", ns)
		rd.Evals = evals
		rd.Nontrivial = 1
		rd.Extra = map[string]any{"exhaustive_positions": exhaustive, "stream_bytes": L, "segments": ns, "saved_entries": len(saved), "loads": evals}
	}
}

// fillCache stores op.N distinct keys starting at op.Key (every seventh with the TTL op.TTL).
func fillCache(env *simEnv, op Op) {
	for i := 0; i < op.N; i++ {
		var ttl int64
		if i%7 == 0 {
			ttl = op.TTL
		}
		env.api.set(op.Key+i, int64(op.Key+i)<<8|3, 1, time.Duration(ttl))
		if i%512 == 0 {
			env.api.wait()
		}
	}
	env.api.wait()
}
