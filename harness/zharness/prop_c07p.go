package main

import (
	"fmt"

	"github.com/Yiling-J/theine-go/internal"
	"verifsim/simrt"
)

// C07, component simulator: the real TinyLfu policy alone. The property
// quantifies over arbitrary sketch contents, arbitrary hit/miss sample counts
// and all capacities; API-driven histories reach only a corner of that, so this
// runner drives the policy's own steps (insert / access / cost update / remove
// / forced sample counts / added frequencies) and evaluates the structural
// invariants after every single step.

func init() {
	runners["policy"] = runPolicyScenario
}

func genPolicy(g *gen, tier string) *Scenario {
	sc := &Scenario{Family: "policy-steps", Runner: "policy", Params: map[string]int64{}}
	capacity := pick(g, int64(1), int64(2), int64(3), int64(4), int64(5), int64(8), int64(15), int64(50), int64(150), int64(200), int64(1000), int64(20000))
	if g.pct(25) {
		capacity = pick(g, int64(1)<<24+3, int64(1)<<28+12345, int64(578875687), int64(1140900076), int64(1)<<31, int64(1)<<32, int64(1)<<33+12345, int64(1)<<40)
		sc.Family = "policy-steps,huge-capacity"
	}
	sc.Cache.MaxSize = capacity
	unit := int64(1)
	if capacity > 1<<20 {
		unit = capacity / int64(pick(g, 64, 200, 1000, 5000)) // typical entry cost
	}
	maxCost := unit * int64(pick(g, 1, 1, 3, 8))
	if maxCost > capacity {
		maxCost = capacity
	}
	oversize := g.pct(30)
	if oversize {
		sc.Family += ",oversize-inserts"
	}
	cost := func() int64 {
		switch x := g.n(100); {
		case x < 1 && oversize:
			// heavier than the whole cache: Set and the loader refuse such a value, a promotion from a
			// secondary store that was filled under a larger MaxSize hands it to the policy; "after any
			// insert" the bounds hold again (the policy evicts it, possibly with everything else)
			return capacity + 1 + int64(g.r.Uint64()%uint64(2*capacity))
		case x < 4:
			return pick(g, capacity, capacity-1, capacity/2+1, capacity/2)
		case x < 10:
			return maxCost
		}
		c := unit/2 + int64(g.r.Uint64()%uint64(maxCost-unit/2+1))
		if c < 1 {
			c = 1
		}
		return c
	}
	resident := int(capacity / unit)
	if resident > 400 {
		resident = 400
	}
	keys := resident*pick(g, 1, 2, 4) + 2
	nops := g.rng(40, 400)
	if tier == "thorough" {
		nops = g.rng(40, 1500)
	}
	climbs := pick(g, 0, 3, 10, 30) // forced climber steps per 100 operations
	var ops []Op
	hr := 50
	for i := 0; i < nops; i++ {
		x := g.n(100)
		switch {
		case x < climbs:
			// force the sample counters past the sample size with a chosen hit ratio: swings,
			// plateaus (step decay) and extremes
			switch g.n(5) {
			case 0:
				hr = g.n(101)
			case 1:
				hr = pick(g, 0, 100)
			case 2:
				hr += g.rng(-3, 3)
			}
			if hr < 0 {
				hr = 0
			}
			if hr > 100 {
				hr = 100
			}
			ops = append(ops, Op{Kind: "psample", N: hr})
		case x < climbs+35:
			ops = append(ops, Op{Kind: "pset", Key: g.n(keys), Cost: cost()})
		case x < climbs+75:
			ops = append(ops, Op{Kind: "pacc", Key: g.n(keys), N: pick(g, 1, 1, 2, 5)})
		case x < climbs+82:
			ops = append(ops, Op{Kind: "prem", Key: g.n(keys)})
		case x < climbs+90:
			ops = append(ops, Op{Kind: "pfreq", Key: g.n(keys), N: g.rng(1, 15)})
		default:
			// a run of fresh one-off inserts
			for n := g.rng(1, 6); n > 0; n-- {
				ops = append(ops, Op{Kind: "pset", Key: keys + g.n(1000), Cost: cost()})
			}
		}
	}
	sc.Clients = [][]Op{ops}
	return sc
}

func runPolicyScenario(sc *Scenario) *RunData {
	rd := &RunData{Sc: sc, Snaps: map[string]*Snap{}, SnapAt: map[string]uint64{}}
	cfg := simConfig(sc)
	rd.Res = simrt.Run(cfg, func() {
		p := internal.NewWBPolicySim(uint(sc.Cache.MaxSize))
		sn0 := p.Snapshot()
		capSum := sn0.Regions[0].Capacity + sn0.Regions[2].Capacity
		lastWin := sn0.Regions[0].Capacity
		climbs := 0
		for i, op := range sc.Clients[0] {
			switch op.Kind {
			case "pset":
				if op.Cost >= 1 {
					p.Set(op.Key, op.Cost)
				}
			case "pacc":
				for n := op.N; n > 0; n-- {
					p.Access(op.Key)
				}
			case "prem":
				p.Remove(op.Key)
			case "pfreq":
				p.AddFrequency(op.Key, op.N)
			case "psample":
				total := uint64(p.SampleSize()) + 1 + uint64(op.Key)
				hits := total * uint64(op.N) / 100
				p.ForceSample(hits, total-hits)
				climbs++
			}
			sn := p.Snapshot()
			bad := false
			for _, e := range accountingErrors(sn, true) {
				rd.violate("C07/invariant/"+classifyInv(e)+",policy-steps", fmt.Sprintf("after step %d (%s), capacity %d: %s | state: %s", i, op.Kind, sc.Cache.MaxSize, e, dumpRegions(sn)))
				bad = true
			}
			for _, e := range residentErrors(sn) {
				rd.violate("C07/invariant/"+classify(e)+",policy-steps", fmt.Sprintf("after step %d (%s), capacity %d: %s", i, op.Kind, sc.Cache.MaxSize, e))
				bad = true
			}
			if sn.Regions[0].Capacity+sn.Regions[2].Capacity != capSum {
				rd.violate("C07/invariant/capacity-not-conserved,policy-steps", fmt.Sprintf("after step %d (%s): window capacity %d + protected capacity %d != initial %d", i, op.Kind, sn.Regions[0].Capacity, sn.Regions[2].Capacity, capSum))
				bad = true
			}
			if sn.Regions[0].Capacity != lastWin {
				if sn.Regions[0].Capacity > lastWin {
					probe("c07.window-grew")
				} else {
					probe("c07.window-shrank")
				}
				lastWin = sn.Regions[0].Capacity
			}
			if bad {
				break
			}
		}
		probeN("c07.policy-steps", len(sc.Clients[0]))
		probeN("c07.forced-climbs", climbs)
		rd.Nontrivial = 1
	})
	return rd
}
