package main

import (
	"fmt"
	"strings"

)

// C13 - loading cache: one load in flight per key, result shared, failures not cached.
//
// StoreSim in the loading configuration; the loader stub logs start/end with
// event sequence numbers, yields, sleeps simulated time and follows a seeded
// per-invocation fault plan: value (with cost / TTL), error, panic, Goexit.

func init() {
	props["C13"] = &propDef{gen: genC13, check: checkC13}
}

func genC13(g *gen, tier string) *Scenario {
	sc := &Scenario{Sim: g.sim(), Params: map[string]int64{}}
	sc.Cache = g.cache("loading")
	sc.Cache.MaxSize = int64(pick(g, 2, 4, 8, 16))
	sc.Cache.Pool = g.pct(30)
	sc.Cache.CostFn = g.pct(30) // the loader may leave the cost to the cost function (1..3: oversize for MaxSize 2)
	sc.Family = "loading"
	if sc.Cache.Pool {
		sc.Family = "loading+pool"
	}
	sc.Sim.PoolReuse = pick(g, 50, 90, 100)
	faults := pick(g, "none", "errors", "panics", "mixed", "mixed")
	sc.Family += ",loader=" + faults
	switch faults {
	case "errors":
		sc.Stubs.LoaderErrPct = pick(g, 20, 50)
	case "panics":
		sc.Stubs.LoaderPanicPct = pick(g, 15, 40)
	case "mixed":
		sc.Stubs.LoaderErrPct, sc.Stubs.LoaderPanicPct, sc.Stubs.LoaderExitPct = 15, 10, 10
	}
	sc.Stubs.LoaderSlowPct = pick(g, 0, 30, 70)
	sc.Stubs.LoaderSlowDur = int64(g.rng(1, 2000)) * ms
	sc.Stubs.LoaderTTLPct = pick(g, 0, 30)
	sc.Stubs.LoaderTTL = pick(g, 500*ms, 5*sec, 100*sec)
	sc.Stubs.LoaderCostMax = pick(g, int64(1), int64(2), sc.Cache.MaxSize)
	sc.Stubs.LoaderOverPct = pick(g, 0, 0, 20)
	nkeys := g.rng(1, 3)
	sc.Params["nkeys"] = int64(nkeys)
	nc := g.rng(2, 4)
	if tier == "thorough" {
		nc = g.rng(2, 6)
	}
	for c := 0; c < nc; c++ {
		var ops []Op
		for n := g.rng(3, 14); n > 0; n-- {
			x := g.n(100)
			switch {
			case x < 62:
				ops = append(ops, Op{Kind: "get", Key: g.n(nkeys)})
			case x < 75:
				ops = append(ops, Op{Kind: "set", Key: g.n(nkeys), Cost: 1})
			case x < 90:
				ops = append(ops, Op{Kind: "del", Key: g.n(nkeys)})
			default:
				ops = append(ops, Op{Kind: "sleep", Dur: int64(g.rng(1, 1500)) * ms})
			}
		}
		sc.Clients = append(sc.Clients, ops)
	}
	// once the faults have stopped mattering: every shard still serves writes and reads
	var ep []Op
	for k := 0; k < nkeys; k++ {
		ep = append(ep, Op{Kind: "set", Key: k, Cost: 1, Label: "epilogue"}, Op{Kind: "get", Key: k})
	}
	ep = append(ep, quiesce...)
	sc.Epilogue = ep
	return sc
}

func tokenOf(s string) string {
	i := strings.LastIndex(s, " L")
	if i < 0 {
		return ""
	}
	t := s[i+1:]
	for j, c := range t {
		if j > 0 && (c < '0' || c > '9') {
			return t[:j]
		}
	}
	return t
}

func checkC13(rd *RunData) []Violation {
	var vs []Violation
	recs := sortedRecs(rd.Recs)
	fam := "nopool"
	if rd.Sc.Cache.Pool {
		fam = "pool"
	}
	// (5) nothing stays blocked
	if rd.Res.Verdict == "deadlock" || rd.Res.Verdict == "no-progress" {
		after := "none"
		for _, l := range rd.Loader {
			if l.Outcome == "panic" || l.Outcome == "exit" || l.Outcome == "err" {
				after = l.Outcome
			}
		}
		for _, r := range blockedCalls(rd) {
			if r.Op.Kind == "waitidle" || r.Op.Kind == "sleep" {
				continue
			}
			vs = append(vs, Violation{fmt.Sprintf("C13/blocked-forever/call=%s,last-loader-failure=%s", r.Op.Kind, after), fmt.Sprintf("%s by client %d (inv=%d) never returns: kernel verdict %s (%s)", r.Op, r.Client, r.Inv, rd.Res.Verdict, rd.Res.Detail)})
		}
		return vs
	}
	// flight of an invocation = the whole Get call of the task that ran the loader
	type flight struct {
		l        LdRec
		inv, ret uint64
		retT     int64
		found    bool
	}
	flights := map[string]*flight{}
	byVal := map[int64]*flight{}
	var order []*flight
	for _, l := range rd.Loader {
		f := &flight{l: l}
		for _, g := range recs {
			if g.Op.Kind == "get" && g.Client >= -1 && rd.ClientTask[g.Client+1] == l.Task && g.Inv < l.Start && (g.Open || g.Ret > l.Start) {
				f.inv, f.ret, f.retT, f.found = g.Inv, g.Ret, g.RetT, true
				if g.Open {
					f.ret = ^uint64(0)
				}
			}
		}
		flights[l.Token] = f
		byVal[l.Val] = f
		order = append(order, f)
	}
	// (1) invocations of one key never overlap
	for i, a := range order {
		for _, b := range order[i+1:] {
			if a.l.Key != b.l.Key {
				continue
			}
			aEnd, bEnd := a.l.End, b.l.End
			if aEnd == 0 {
				aEnd = ^uint64(0)
			}
			if bEnd == 0 {
				bEnd = ^uint64(0)
			}
			if a.l.Start < bEnd && b.l.Start < aEnd {
				vs = append(vs, Violation{"C13/concurrent-loads/" + fam, fmt.Sprintf("loader invocations %s seq=[%d,%d] and %s seq=[%d,%d] for key %d overlap", a.l.Token, a.l.Start, a.l.End, b.l.Token, b.l.Start, b.l.End, a.l.Key)})
			}
		}
	}
	// (1c) a running load stays joinable: the library keeps the flight registered until the loader
	// has returned (it forgets the key afterwards, under the shard lock). White-box witness taken
	// by the loader stub at its last instruction: if the registration is gone, a caller that misses
	// now cannot receive this invocation's result and will load again.
	for _, f := range order {
		if f.l.Unreg && f.l.End != 0 {
			vs = append(vs, Violation{"C13/flight-not-joinable/" + fam, fmt.Sprintf("loader invocation %s for key %d (seq [%d,%d], outcome %s) finished while its flight was no longer registered: callers that missed during this load cannot share its result", f.l.Token, f.l.Key, f.l.Start, f.l.End, f.l.Outcome)})
		}
	}
	// (1b) no redundant load: the loader is only ever invoked for a key that is absent (or expired).
	// White-box witness taken by the loader stub at its first instruction: if the key is resident
	// and unexpired at that moment, some caller that had missed earlier ran the loader again
	// instead of finding / sharing the stored value - and its result overwrites the resident one.
	for _, f := range order {
		if f.l.Resident {
			vs = append(vs, Violation{"C13/redundant-load/key-resident-at-loader-start," + fam, fmt.Sprintf("loader invocation %s for key %d (seq [%d,%d]) was started while the key was resident and unexpired (value %d): a caller that had missed earlier loaded again instead of sharing the stored value", f.l.Token, f.l.Key, f.l.Start, f.l.End, f.l.ResVal)})
		}
	}
	probeN("c13.loader-invocations", len(order))
	overlaps := func(r Rec, f *flight) bool {
		if !f.found {
			return true // cannot tell: be permissive
		}
		ret := r.Ret
		if r.Open {
			ret = ^uint64(0)
		}
		return r.Inv < f.ret && f.inv < ret
	}
	for _, r := range recs {
		if r.Op.Kind != "get" {
			continue
		}
		switch {
		case r.Exit:
			ok := false
			for _, f := range order {
				if f.l.Key == r.Op.Key && f.l.Outcome == "exit" && overlaps(r, f) {
					ok = true
				}
			}
			if !ok {
				vs = append(vs, Violation{"C13/goexit-without-load/" + fam, fmt.Sprintf("%s by client %d ended in runtime.Goexit but no exiting loader invocation for key %d overlaps it: a failure was cached", r.Op, r.Client, r.Op.Key)})
			}
		case r.Panic != "" || (r.Err != "" && strings.Contains(r.Err, "injected loader")):
			txt := r.Panic
			what := "panic"
			if txt == "" {
				txt, what = r.Err, "error"
			}
			tok := tokenOf(firstLine(txt))
			f := flights[tok]
			if f == nil {
				vs = append(vs, Violation{"C13/unknown-failure/" + fam, fmt.Sprintf("%s by client %d failed with %q which no loader invocation produced", r.Op, r.Client, firstLine(txt))})
				continue
			}
			if f.l.Key != r.Op.Key {
				vs = append(vs, Violation{"C13/foreign-result/" + what + "," + fam, fmt.Sprintf("%s by client %d received the %s of loader invocation %s, which was for key %d", r.Op, r.Client, what, tok, f.l.Key)})
			} else if !overlaps(r, f) {
				vs = append(vs, Violation{"C13/failure-cached/" + what + "," + fam, fmt.Sprintf("%s by client %d (seq [%d,%d]) received the %s of loader invocation %s whose flight (seq [%d,%d]) does not overlap it: a failure was cached", r.Op, r.Client, r.Inv, r.Ret, what, tok, f.inv, f.ret)})
			}
		case r.Ok:
			if f := byVal[r.Val]; f != nil && f.l.Key != r.Op.Key {
				vs = append(vs, Violation{"C13/foreign-result/value," + fam, fmt.Sprintf("%s by client %d returned value %d which loader invocation %s produced for key %d", r.Op, r.Client, r.Val, f.l.Token, f.l.Key)})
			}
			// (6a) a load heavier than the cache is refused like such a Set: only the callers of
			// that flight see the value, nobody reads it from the cache afterwards
			if f := byVal[r.Val]; f != nil && f.found && f.l.Outcome == "ok" && r.Inv > f.ret {
				eff := f.l.Cost
				if eff == 0 && rd.Sc.Cache.CostFn {
					eff = costOf(f.l.Val)
				}
				if eff > rd.Sc.Cache.MaxSize {
					vs = append(vs, Violation{"C13/oversize-admitted/loader,read-from-cache", fmt.Sprintf("%s by client %d (inv=%d) returned value %d which loader invocation %s had produced with cost %d > MaxSize %d; its flight had ended (seq %d), so the value was read from the cache", r.Op, r.Client, r.Inv, r.Val, f.l.Token, eff, rd.Sc.Cache.MaxSize, f.ret)})
				}
			}
		}
	}
	// (6) admission equals Set's: cost and deadline of loaded entries once writes have drained
	if sn := rd.Snaps["final"]; sn != nil && rd.Res.Verdict == "ok" {
		ttlWrites := map[int]bool{}
		for _, r := range recs {
			if r.Op.Kind == "set" && r.Op.TTL != 0 {
				ttlWrites[r.Op.Key] = true
			}
		}
		for _, l := range rd.Loader {
			if l.TTL != 0 {
				ttlWrites[l.Key] = true
			}
		}
		for _, e := range sn.Resident {
			f := byVal[e.Value]
			if f == nil {
				continue
			}
			probe("c13.loaded-entry-resident")
			want := f.l.Cost
			if want == 0 {
				want = costOf(e.Value)
			}
			if want > rd.Sc.Cache.MaxSize {
				vs = append(vs, Violation{"C13/oversize-admitted/loader", fmt.Sprintf("after Wait: key %d loaded by %s with cost %d > MaxSize %d is resident", e.Key, f.l.Token, want, rd.Sc.Cache.MaxSize)})
				continue
			}
			if e.Weight != want || e.PolicyWeight != want {
				vs = append(vs, Violation{"C13/admission-differs/cost", fmt.Sprintf("after Wait: key %d loaded by %s with cost %d is resident with cost %d (policy cost %d)", e.Key, f.l.Token, want, e.Weight, e.PolicyWeight)})
			}
			off := sn.ClockStart - simEpochNanos
			if f.l.TTL > 0 && f.found {
				dl := e.Expire + off
				if dl < f.l.EndT+f.l.TTL || dl > f.retT+f.l.TTL {
					vs = append(vs, Violation{"C13/admission-differs/deadline", fmt.Sprintf("after Wait: key %d loaded by %s with ttl %s (loader returned at t=%s, Get returned at t=%s) has deadline t=%s", e.Key, f.l.Token, durStr(f.l.TTL), durStr(f.l.EndT), durStr(f.retT), durStr(dl))})
				}
			} else if f.l.TTL == 0 && e.Expire != 0 && !ttlWrites[e.Key] {
				vs = append(vs, Violation{"C13/admission-differs/deadline", fmt.Sprintf("after Wait: key %d loaded by %s without ttl has a deadline", e.Key, f.l.Token)})
			}
		}
	}
	return vs
}
