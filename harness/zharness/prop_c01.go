package main

import (
	"fmt"
	"sort"
	"strings"
	"time"

	"github.com/anishathalye/porcupine"
)

// C01 - reads return only the latest value written for that key (linearizable map).

func init() {
	props["C01"] = &propDef{gen: genC01, check: checkC01}
}

func genC01(g *gen, tier string) *Scenario {
	sc := &Scenario{Sim: g.sim(), Params: map[string]int64{}}
	kind := pick(g, "plain", "plain", "loading")
	sc.Cache = g.cache(kind)
	sc.Cache.MaxSize = int64(pick(g, 1, 2, 3, 4, 6, 8, 16))
	sc.Cache.Doorkeeper = g.pct(25)
	sc.Cache.Pool = g.pct(35)
	sc.Family = kind
	if sc.Cache.Pool {
		sc.Family += "+pool"
		sc.Sim.PoolReuse = pick(g, 50, 90, 100)
		sc.Sim.PoolDrop = pick(g, 0, 0, 10)
	}
	if sc.Cache.Doorkeeper {
		sc.Family += "+doorkeeper"
	}
	if g.pct(30) {
		sc.Sim.AtomicFiles = []string{"store.go", "entry.go"}
	}
	if g.pct(15) {
		sc.Sim.AtomicFiles = append(sc.Sim.AtomicFiles, "rbmutex.go")
	}
	maxCost := sc.Cache.MaxSize
	if maxCost > 3 {
		maxCost = 3
	}
	p := mixParams{clients: [2]int{2, 3}, ops: [2]int{4, 14}, keys: g.rng(1, 4), setPct: 35, getPct: 40, delPct: 12, rangePct: 6, waitPct: 2, sleepPct: 5,
		ttlPct: pick(g, 0, 0, 20, 50), ttls: []int64{50 * ms, 900 * ms, 2 * sec, 40 * sec, 3600 * sec}, costMax: maxCost, sleepMax: 1500 * ms}
	if tier == "thorough" {
		p.clients = [2]int{2, 4}
		p.ops = [2]int{4, 24}
		p.keys = g.rng(1, 5)
	}
	sc.Clients = g.mixed(p)
	serializeWaits(sc.Clients)
	if kind == "loading" {
		sc.Stubs.LoaderSlowPct = pick(g, 0, 30)
		sc.Stubs.LoaderSlowDur = int64(g.rng(1, 800)) * ms
		sc.Stubs.LoaderErrPct = pick(g, 0, 10)
	}
	sc.Stubs.ListenerSlowPct = pick(g, 0, 0, 15)
	sc.Stubs.ListenerSlowDur = int64(g.rng(1, 1500)) * ms
	return sc
}

// register model input
type regIn struct {
	kind   string // set noop del read miss loadread
	v      int64
	client int
}

func keyOps(rd *RunData) map[int][]porcupine.Operation {
	// loader invocation intervals by value
	ld := map[int64]LdRec{}
	for _, l := range rd.Loader {
		ld[l.Val] = l
	}
	ops := map[int][]porcupine.Operation{}
	add := func(key int, r Rec, in regIn) {
		ret := int64(r.Ret)
		if r.Open {
			ret = int64(^uint64(0) >> 2)
		}
		in.client = r.Client
		ops[key] = append(ops[key], porcupine.Operation{ClientId: r.Client + 1, Input: in, Call: int64(r.Inv), Output: nil, Return: ret})
	}
	for _, r := range rd.Recs {
		switch r.Op.Kind {
		case "set":
			if r.Open {
				// may or may not have taken effect: a write with an open interval
				add(r.Op.Key, r, regIn{kind: "set", v: r.Val})
			} else if r.Ok {
				add(r.Op.Key, r, regIn{kind: "set", v: r.Val})
			}
		case "del":
			add(r.Op.Key, r, regIn{kind: "del"})
		case "get":
			if r.Open || r.Panic != "" || r.Exit {
				continue
			}
			if r.Ok {
				if l, ok := ld[r.Val]; ok && l.Start < r.Ret && (l.End == 0 || l.End > r.Inv) {
					add(r.Op.Key, r, regIn{kind: "loadread", v: r.Val})
				} else {
					add(r.Op.Key, r, regIn{kind: "read", v: r.Val})
				}
			} else if r.Err == "" {
				add(r.Op.Key, r, regIn{kind: "miss"})
			}
		case "range":
			if r.Open {
				continue
			}
			for _, kv := range r.Pairs {
				add(kv.K, r, regIn{kind: "read", v: kv.V})
			}
		}
	}
	return ops
}

type regState struct {
	present bool
	v       int64
}

var regModel = porcupine.Model{
	Init: func() interface{} { return regState{} },
	Step: func(state, input, output interface{}) (bool, interface{}) {
		s := state.(regState)
		in := input.(regIn)
		switch in.kind {
		case "set":
			return true, regState{true, in.v}
		case "del":
			return true, regState{}
		case "read":
			return s.present && s.v == in.v, s
		case "loadread":
			// either a plain read of v, or the load-and-store of v itself
			return true, regState{true, in.v}
		case "miss":
			// a miss is always legal (eviction/expiry may happen at any time) and
			// what was gone cannot come back without a write
			return true, regState{}
		}
		return false, s
	},
	Equal: func(a, b interface{}) bool { return a.(regState) == b.(regState) },
	DescribeOperation: func(input, output interface{}) string {
		in := input.(regIn)
		return fmt.Sprintf("c%d %s %d", in.client, in.kind, in.v)
	},
}

func checkC01(rd *RunData) []Violation {
	var vs []Violation
	cfg := rd.Sc.Cache
	fam := "plain"
	if cfg.Pool {
		fam = "pool"
	}
	// R3: every value read was written to that key
	written := map[KV]bool{}
	for _, r := range rd.Recs {
		if r.Op.Kind == "set" {
			written[KV{r.Op.Key, r.Val}] = true
		}
	}
	for _, l := range rd.Loader {
		written[KV{l.Key, l.Val}] = true
	}
	reads := func(f func(r Rec, k int, v int64)) {
		for _, r := range rd.Recs {
			if r.Open {
				continue
			}
			if r.Op.Kind == "get" && r.Ok {
				f(r, r.Op.Key, r.Val)
			}
			if r.Op.Kind == "range" {
				for _, kv := range r.Pairs {
					f(r, kv.K, kv.V)
				}
			}
		}
	}
	reads(func(r Rec, k int, v int64) {
		if !written[KV{k, v}] {
			vs = append(vs, Violation{"C01/foreign-value/" + r.Op.Kind + "," + fam, fmt.Sprintf("%s by client %d returned value %d for key %d, which was never written to that key", r.Op, r.Client, v, k)})
		}
	})
	// R2: once the listener was told (k,v) left, no later read returns v
	gone := map[KV]uint64{}
	for _, l := range rd.Listener {
		if _, ok := gone[KV{l.Key, l.Val}]; !ok {
			gone[KV{l.Key, l.Val}] = l.Seq
		}
	}
	reads(func(r Rec, k int, v int64) {
		if s, ok := gone[KV{k, v}]; ok && r.Inv > s {
			vs = append(vs, Violation{"C01/read-after-removal-notified/" + r.Op.Kind + "," + fam, fmt.Sprintf("%s by client %d (inv=%d) returned value %d of key %d although its removal had been reported to the listener at seq %d", r.Op, r.Client, r.Inv, v, k, s)})
		}
	})
	if len(vs) > 0 {
		return vs
	}
	// linearizability per key
	kops := keyOps(rd)
	keys := make([]int, 0, len(kops))
	for k := range kops {
		keys = append(keys, k)
	}
	sort.Ints(keys)
	for _, k := range keys {
		ops := kops[k]
		if len(ops) > 60 {
			probe("c01.history-too-long")
			continue
		}
		res := porcupine.CheckOperationsTimeout(regModel, ops, 5*time.Second)
		switch res {
		case porcupine.Illegal:
			var sb strings.Builder
			sort.Slice(ops, func(i, j int) bool { return ops[i].Call < ops[j].Call })
			for _, o := range ops {
				in := o.Input.(regIn)
				fmt.Fprintf(&sb, "[c%d %s v=%d call=%d ret=%d] ", in.client, in.kind, in.v, o.Call, o.Return)
			}
			kind := "stale-or-lost"
			vs = append(vs, Violation{"C01/not-linearizable/" + kind + "," + fam, fmt.Sprintf("history of key %d is not linearizable against a register: %s", k, sb.String())})
		case porcupine.Unknown:
			rd.Inconclusive++
		default:
			rd.Checked++
		}
	}
	return vs
}
