package main

import (
	"fmt"
	"sort"
	"strings"

	"github.com/Yiling-J/theine-go/internal"
	"verifsim/simrt"
)

// C11 - SaveCache / LoadCache round trip restores the cache faithfully.
//
// SaveLoadSim: a simulated-use phase (mixed costs, deadlines on several wheel
// levels, read-heavy stretches that move the adaptive window) -> quiesce ->
// white-box snapshot S -> SaveCache to the simulated disk -> simulated time
// passes (the "restart") -> LoadCache into a new cache of the same or a
// smaller MaxSize through short reads -> snapshot L -> compare.

func init() {
	props["C11"] = &propDef{gen: genC11, setup: setupC11, check: func(rd *RunData) []Violation { return nil }}
}

func genC11(g *gen, tier string) *Scenario {
	sc := &Scenario{Sim: g.sim(), Params: map[string]int64{}}
	sc.Cache = g.cache(pick(g, "plain", "plain", "loading"))
	sc.Cache.Listener = false
	sc.Cache.MaxSize = int64(pick(g, 4, 8, 12, 20, 40, 100))
	sc.Cache.WriteChan, sc.Cache.WriteBuf = pick(g, 4, 64), pick(g, 4, 128)
	sc.Cache.Stripes = 1
	sc.Sim.Drift = pick(g, 0, 1, 2)
	sc.Sim.MaxSteps = 5000000
	mixed := g.pct(50)
	sc.Params["mixedcosts"] = 0
	maxCost := int64(1)
	if mixed {
		maxCost = 3
		if sc.Cache.MaxSize >= 12 {
			maxCost = pick(g, int64(3), int64(5))
		}
		sc.Params["mixedcosts"] = 1
	}
	keys := int(sc.Cache.MaxSize) * pick(g, 1, 2, 3)
	long := g.pct(50) // long enough for the hill climber to move the window
	nops := g.rng(10, 80)
	if long {
		nops = g.rng(300, 900)
		if tier == "thorough" {
			nops = g.rng(300, 2500)
		}
	}
	ttls := []int64{20 * sec, 90 * sec, 2 * 3600 * sec, 3 * 86400 * sec}
	ttlPct := pick(g, 0, 30, 60)
	var ops []Op
	hot := g.rng(1, int(sc.Cache.MaxSize)/2+1)
	for i := 0; i < nops; i++ {
		x := g.n(100)
		switch {
		case x < 35:
			op := Op{Kind: "set", Key: g.n(keys), Cost: int64(g.rng(1, int(maxCost)))}
			if g.pct(ttlPct) {
				op.TTL = ttls[g.n(len(ttls))]
			}
			ops = append(ops, op)
		case x < 90:
			k := g.n(hot)
			if g.pct(30) {
				k = g.n(keys)
			}
			ops = append(ops, Op{Kind: "get", Key: k})
		case x < 93:
			ops = append(ops, Op{Kind: "del", Key: g.n(keys)})
		default:
			ops = append(ops, Op{Kind: "sleep", Dur: int64(g.rng(1, 50)) * ms})
		}
	}
	heated := g.pct(4)
	if heated {
		// a cache that was large, shrank to a small hot set and is saved: its frequency sketch is
		// sized for the large population, the loading cache's for the few survivors, so the
		// restored frequencies add up to more than one ageing period of the new sketch
		sc.Cache.MaxSize = int64(pick(g, 1000, 2000, 3000))
		sc.Cache.WriteChan, sc.Cache.WriteBuf = 64, 128
		big := int(sc.Cache.MaxSize)
		n := g.rng(88, 250)
		ops = []Op{{Kind: "fill", Key: 0, N: big}, {Kind: "wait"}, {Kind: "delrange", Key: n, N: big - n}, {Kind: "wait"},
			{Kind: "heat", Key: 0, N: n, Cost: int64(g.rng(15, 22))}, {Kind: "wait"}}
		sc.Params["mixedcosts"] = 0
	}
	big := !heated && g.pct(6)
	if big {
		// a cache whose window holds several entries, loaded into a much smaller one: the saved
		// window (1 % of 300-1500) does not fit the target's window, main regions do not fit either
		sc.Cache.MaxSize = int64(pick(g, 300, 600, 1000, 1500))
		sc.Cache.WriteChan, sc.Cache.WriteBuf = 64, 128
		n := int(sc.Cache.MaxSize)
		ops = []Op{{Kind: "fill", Key: 0, N: n + g.rng(0, n/2)}, {Kind: "wait"}}
		if g.pct(60) {
			ops = append(ops, Op{Kind: "heat", Key: g.n(n / 2), N: g.rng(5, n/2), Cost: int64(g.rng(1, 4))}, Op{Kind: "wait"})
		}
		if g.pct(50) {
			ops = append(ops, Op{Kind: "fill", Key: 2 * n, N: g.rng(1, 40)}, Op{Kind: "wait"})
		}
		sc.Params["mixedcosts"] = 0
		long = false
	}
	sc.Clients = [][]Op{ops}
	target := sc.Cache.MaxSize
	sc.Family = "same-size"
	if !heated && g.pct(40) || big {
		target = int64(g.rng(1, int(sc.Cache.MaxSize)-1))
		if big {
			target = int64(pick(g, g.rng(2, 20), g.rng(20, 150), g.rng(100, int(sc.Cache.MaxSize)-1)))
		}
		sc.Family = "smaller-target"
	}
	if big {
		sc.Family += ",big"
	}
	if long && !heated {
		sc.Family += ",long-use"
	}
	if heated {
		sc.Family += ",heated"
	}
	sc.Params["target"] = target
	sc.Params["gap"] = pick(g, int64(0), int64(g.rng(1, 5000))*ms, int64(g.rng(5, 200))*sec, int64(g.rng(1, 100))*3600*sec)
	sc.Params["chunk"] = int64(pick(g, 0, 1, 5, 64, 4096))
	if ttlPct > 0 && g.pct(30) {
		sc.Params["gapnear"] = 1
		sc.Params["gapbefore"] = int64(g.rng(1, 950)) * ms
	}
	sc.Epilogue = []Op{{Kind: "waitidle"}, {Kind: "wait"}, {Kind: "waitidle"}, {Kind: "xsaveload"}}
	return sc
}

func regionKeys(sn *Snap) (order map[string][]int, where map[int]string) {
	order = map[string][]int{}
	where = map[int]string{}
	for _, rg := range sn.Regions {
		for _, e := range rg.Entries {
			order[rg.Name] = append(order[rg.Name], e.Key)
			where[e.Key] = rg.Name
		}
	}
	return
}

//go:norace
func setupC11(env *simEnv) {
	rd := env.rd
	env.customOp = func(op Op, rec *Rec) {
		if simrt.RaceEnabled {
			return
		}
		S := internal.Snapshot(rd.Store)
		if errs := append(residentErrors(S), accountingErrors(S, true)...); len(errs) > 0 {
			// the saving cache itself is inconsistent: C02's business, not a round-trip defect
			probe("c11.saving-cache-inconsistent")
			return
		}
		saved := savedSet(S)
		freq := map[int]uint{}
		for k := range saved {
			freq[k] = internal.SketchEstimate(rd.Store, k)
		}
		sOrder, sWhere := regionKeys(S)
		disk := newSimDisk()
		if err := env.api.save(7, disk.writer(0)); err != nil {
			rd.violate("C11/save-failed", err.Error())
			return
		}
		gap := rd.Sc.Params["gap"]
		if rd.Sc.Params["gapnear"] == 1 {
			// restart shortly before the earliest saved deadline
			var first int64
			for _, e := range saved {
				if e.wall != 0 && (first == 0 || e.wall < first) {
					first = e.wall
				}
			}
			if d := first - (simEpochNanos + simrt.Now()) - rd.Sc.Params["gapbefore"]; first != 0 && d > 0 {
				gap = d
				probe("c11.restart-just-before-a-deadline")
			}
		}
		if gap > 0 {
			simrt.AdvanceTime(gap)
			simrt.Fault("restart.gap")
		}
		cfg := rd.Sc.Cache
		target := rd.Sc.Params["target"]
		cfg.MaxSize = target
		api2, err := buildCacheCfg(rd, cfg)
		if err != nil {
			rd.violate("C11/harness/build", err.Error())
			return
		}
		fresh := internal.Snapshot(api2.store)
		t0 := simrt.Now()
		lerr := api2.load(7, disk.reader(int(rd.Sc.Params["chunk"])))
		t1 := simrt.Now()
		if lerr != nil {
			rd.violate("C11/load-failed", fmt.Sprintf("LoadCache of an undamaged stream failed: %v", lerr))
			return
		}
		Lsn := internal.Snapshot(api2.store)
		loaded := savedSet(Lsn)
		lOrder, lWhere := regionKeys(Lsn)
		wall0, wall1 := simEpochNanos+t0, simEpochNanos+t1
		same := target == rd.Sc.Cache.MaxSize
		fam := "same-size"
		if !same {
			fam = "smaller-target"
		}
		moved := "split-unmoved"
		if S.Regions[0].Capacity != fresh.Regions[0].Capacity && same {
			moved = "window-moved"
			probe("c11.window-moved-before-save")
		}
		costs := "unit-costs"
		if rd.Sc.Params["mixedcosts"] == 1 {
			costs = "mixed-costs"
		}
		// nothing invented, data exact
		for k, l := range loaded {
			s, ok := saved[k]
			if !ok {
				rd.violate("C11/invented-entry/"+fam, fmt.Sprintf("loaded key %d was not in the saved cache", k))
				continue
			}
			if s.v != l.v || s.cost != l.cost || s.wall != l.wall {
				rd.violate("C11/entry-changed/"+fam, fmt.Sprintf("key %d saved as (value %d, cost %d, wall deadline %d) loaded as (value %d, cost %d, wall deadline %d)", k, s.v, s.cost, s.wall, l.v, l.cost, l.wall))
			}
			if s.wall != 0 && s.wall < wall0 {
				rd.violate("C11/expired-entry-restored/"+fam, fmt.Sprintf("key %d had expired %.3fs before LoadCache started but was restored", k, float64(wall0-s.wall)/1e9))
			}
			if lWhere[k] != sWhere[k] {
				rd.violate("C11/region-changed/"+fam, fmt.Sprintf("key %d was saved in %s and restored into %s", k, sWhere[k], lWhere[k]))
			}
			if f := internal.SketchEstimate(api2.store, k); f < freq[k] {
				rd.violate("C11/frequency-lost/"+fam, fmt.Sprintf("key %d had access frequency %d when saved, %d after loading", k, freq[k], f))
			}
		}
		// consistency of the loaded cache
		for _, e := range append(residentErrors(Lsn), accountingErrors(Lsn, true)...) {
			cls := classify(e)
			if strings.HasPrefix(e, "policy total") && strings.Contains(e, "exceeds capacity") {
				cls = "total-over-capacity" // own class: the known finding must not absorb other accounting errors
			}
			rd.violate("C11/loaded-cache-inconsistent/"+cls+","+fam+","+costs, "after LoadCache: "+e)
		}
		alive := func(k int) bool { s := saved[k]; return s.wall == 0 || s.wall > wall1 }
		for _, rg := range []string{"window", "probation", "protected"} {
			var want []int // saved order, entries that are certainly unexpired
			for _, k := range sOrder[rg] {
				if alive(k) {
					want = append(want, k)
				}
			}
			var got []int
			for _, k := range lOrder[rg] {
				if alive(k) {
					got = append(got, k)
				}
			}
			if same {
				if len(got) < len(want) {
					missing := -1
					in := map[int]bool{}
					for _, k := range got {
						in[k] = true
					}
					for _, k := range want {
						if !in[k] {
							missing = k
							break
						}
					}
					// does the saved region fit the fresh cache's region of the same name?
					fit := "saved-region-fits-fresh-capacity"
					var savedCost int64
					for _, r2 := range S.Regions {
						if r2.Name == rg {
							savedCost = r2.Len
						}
					}
					switch rg {
					case "window":
						if savedCost > int64(fresh.Regions[0].Capacity) {
							fit = "saved-region-exceeds-fresh-capacity"
						}
					case "protected":
						if savedCost > int64(fresh.Regions[2].Capacity) {
							fit = "saved-region-exceeds-fresh-capacity"
						}
					case "probation":
						if S.Regions[1].Len+S.Regions[2].Len > int64(fresh.SlruMax) || S.Regions[2].Len > int64(fresh.Regions[2].Capacity) {
							fit = "saved-region-exceeds-fresh-capacity"
						}
					}
					moved += "," + fit
					rd.violate("C11/entry-dropped/"+rg+","+moved, fmt.Sprintf("same MaxSize %d: %d unexpired entries saved in region %s, %d restored (e.g. key %d missing); saved window capacity %d, fresh window capacity %d", target, len(want), rg, len(got), missing, S.Regions[0].Capacity, fresh.Regions[0].Capacity))
					continue
				}
			}
			// restored entries form a prefix of the saved order, from the most recently used end
			for i, k := range got {
				if i >= len(want) || want[i] != k {
					rd.violate("C11/order-changed/"+rg+","+fam, fmt.Sprintf("region %s: saved order (MRU first) %v, restored %v: not a prefix in the same order", rg, want, got))
					break
				}
			}
		}
		rd.Nontrivial = 1
		if len(saved) == 0 {
			rd.Nontrivial = -1
		}
		probeN("c11.saved-entries", len(saved))
		probeN("c11.restored-entries", len(loaded))
		// a restored entry obeys its restored deadline: read the entries that are about to
		// expire, shortly after their deadlines (before or after the new cache's first tick)
		type due struct {
			k    int
			wall int64
		}
		var dues []due
		nowWall := simEpochNanos + simrt.Now()
		for k, e := range loaded {
			if e.wall != 0 && e.wall > nowWall && e.wall-nowWall < 5*sec {
				dues = append(dues, due{k, e.wall})
			}
		}
		sort.Slice(dues, func(i, j int) bool {
			return dues[i].wall < dues[j].wall || dues[i].wall == dues[j].wall && dues[i].k < dues[j].k
		})
		if len(dues) > 4 {
			dues = dues[:4]
		}
		for _, d := range dues {
			after := int64(simrt.MiscRng().Intn(1200)) * ms
			if wait := d.wall + after - (simEpochNanos + simrt.Now()); wait > 0 {
				simrt.Sleep(wait)
			}
			inv := simEpochNanos + simrt.Now()
			v, ok, _ := api2.get(d.k)
			probe("c11.read-of-restored-entry-after-its-deadline")
			if ok && inv >= d.wall && v == loaded[d.k].v { // (a loading cache answers with a freshly loaded value: fine)
				rd.violate("C11/restored-entry-served-after-deadline/"+fam, fmt.Sprintf("key %d was restored with wall-clock deadline %d; a Get invoked %.3fs after that deadline (%.3fs after LoadCache returned) returned value %d", d.k, d.wall, float64(inv-d.wall)/1e9, float64(inv-wall1)/1e9, v))
			}
		}
		api2.store.Close()
	}
}
