package main

import (
	"fmt"
	"strings"

	"github.com/Yiling-J/theine-go/internal"
	"verifsim/simrt"
)

// C02 - resident cost within MaxSize once writes drain; nothing untracked.
// C07 - policy state structurally consistent (invariant monitor).
// C16 - counters and size views agree with what happened.

func init() {
	props["C02"] = &propDef{gen: genC02, setup: setupC02, check: checkC02}
	props["C07"] = &propDef{gen: genC07, setup: setupC07, check: checkC07}
	props["C16"] = &propDef{gen: genC16, check: checkC16}
}

func genC02(g *gen, tier string) *Scenario {
	sc := &Scenario{Family: "accounting", Sim: g.sim(), Params: map[string]int64{}}
	sc.Cache = g.cache(pick(g, "plain", "plain", "loading"))
	sc.Cache.MaxSize = int64(pick(g, 1, 2, 3, 4, 6, 8, 12, 32))
	sc.Cache.WriteChan = pick(g, 1, 2, 4, 8)
	sc.Cache.WriteBuf = pick(g, 1, 2, 4, 16)
	if g.pct(40) {
		sc.Sim.AtomicFiles = []string{"store.go", "entry.go", "timerwheel.go"}
	}
	maxCost := sc.Cache.MaxSize
	p := mixParams{clients: [2]int{2, 4}, ops: [2]int{4, 16}, keys: g.rng(2, 8), singleWriter: g.pct(50), setPct: 60, getPct: 15, delPct: 15, sleepPct: 10,
		ttlPct: pick(g, 0, 20, 50), ttls: []int64{300 * ms, 1 * sec, 1500 * ms, 3 * sec, 70 * sec}, costMax: maxCost, sleepMax: 2500 * ms}
	if tier == "thorough" {
		p.clients = [2]int{2, 5}
		p.ops = [2]int{4, 30}
	}
	sc.Clients = g.mixed(p)
	if p.singleWriter {
		sc.Family = "accounting,one-writer-per-key"
	}
	if g.pct(12) {
		// one write that displaces many residents: a full cache of unit entries, then a heavy entry
		sc.Family = "accounting,heavy-displacement,one-writer-per-key"
		sc.Cache.MaxSize = int64(pick(g, 100, 300, 1000))
		sc.Cache.WriteChan, sc.Cache.WriteBuf = pick(g, 8, 64), pick(g, 16, 128)
		heavy := sc.Cache.MaxSize * int64(pick(g, 30, 50, 80, 100)) / 100
		ops := []Op{{Kind: "fill", Key: 10000, N: int(sc.Cache.MaxSize)}, {Kind: "wait"}}
		if g.pct(50) {
			ops = append(ops, Op{Kind: "set", Key: 10000 + g.n(int(sc.Cache.MaxSize)), Cost: heavy}) // cost increase of a resident
		} else {
			ops = append(ops, Op{Kind: "set", Key: 5, Cost: heavy}) // heavy insert
		}
		sc.Clients = [][]Op{ops}
		sc.Sim.MaxSteps = 3000000
	}
	sc.Stubs.ListenerSlowPct = pick(g, 0, 0, 10)
	sc.Stubs.ListenerSlowDur = int64(g.rng(1, 1500)) * ms
	sc.Epilogue = append([]Op{}, quiesce...)
	sc.Epilogue = append(sc.Epilogue, Op{Kind: "size"}, Op{Kind: "snap", Label: "after"})
	return sc
}

//go:norace
func setupC02(env *simEnv) {
	rd := env.rd
	if simrt.RaceEnabled {
		return
	}
	bound := rd.Sc.Cache.WriteChan + rd.Sc.Cache.WriteBuf
	simrt.OnRelease(internal.PolicyMuKey(rd.Store), func() {
		rd.MonChecks++
		sn := internal.Snapshot(rd.Store)
		unacc := 0
		for _, e := range sn.Resident {
			if !e.InPolicy && e.Flags&flagRemoved == 0 {
				unacc++
			}
		}
		writers := 0
		for _, r := range rd.InFlight {
			if r != nil && (isWrite(r.Op.Kind) || r.Op.Kind == "get" || r.Op.Kind == "fill") {
				writers++
			}
		}
		if unacc > bound+writers {
			rd.violate("C02/in-flight-bound-exceeded", fmt.Sprintf("%d resident entries are unknown to the policy, more than write-queue capacity %d + %d writers in flight", unacc, bound, writers))
		}
		if unacc > 0 {
			probe("c02.unaccounted-in-flight")
		}
	})
}

func classify(err string) string {
	if i := strings.IndexByte(err, ':'); i > 0 {
		return err[:i]
	}
	return "accounting"
}

func quiescentAccounting(prop string, rd *RunData) []Violation {
	var vs []Violation
	sn := rd.Snaps["final"]
	if sn == nil {
		return nil
	}
	hadTTL := "no-ttl"
	for _, c := range rd.Sc.Clients {
		for _, o := range c {
			if o.TTL != 0 {
				hadTTL = "ttl"
			}
		}
	}
	// does some key receive cost changes from two different tasks? (their deltas can be applied out of order)
	cw := map[int]map[int]bool{}
	for _, r := range rd.Recs {
		if r.Op.Kind == "set" && r.Client >= 0 {
			if cw[r.Op.Key] == nil {
				cw[r.Op.Key] = map[int]bool{}
			}
			cw[r.Op.Key][r.Client] = true
		}
	}
	for _, l := range rd.Loader {
		if cw[l.Key] == nil {
			cw[l.Key] = map[int]bool{}
		}
		cw[l.Key][1000+l.Task] = true
	}
	writers := "one-cost-writer-per-key"
	for _, m := range cw {
		if len(m) > 1 {
			writers = "concurrent-cost-updates"
		}
	}
	for _, e := range residentErrors(sn) {
		vs = append(vs, Violation{prop + "/" + classify(e) + "/" + hadTTL + "," + writers, "at quiescence after Wait: " + e})
	}
	for _, e := range accountingErrors(sn, true) {
		vs = append(vs, Violation{prop + "/policy-accounting/" + hadTTL + "," + writers, "at quiescence after Wait: " + e})
	}
	return vs
}

func checkC02(rd *RunData) []Violation {
	if rd.Res.Verdict != "ok" {
		return nil
	}
	vs := quiescentAccounting("C02", rd)
	if sn, after := rd.Snaps["final"], rd.Snaps["after"]; sn != nil && after != nil && len(sn.Resident) == len(after.Resident) {
		// nothing expired between the two snapshots, so EstimatedSize saw the same residents
		var sum int64
		for _, e := range sn.Resident {
			sum += e.Weight
		}
		for _, r := range rd.Recs {
			if r.Client == -1 && r.Op.Kind == "size" && int64(r.N) != sum {
				vs = append(vs, Violation{"C02/estimated-size-mismatch", fmt.Sprintf("EstimatedSize()=%d but resident cost is %d", r.N, sum)})
			}
		}
	}
	return vs
}

// ---------------- C07 ----------------

func genC07(g *gen, tier string) *Scenario {
	if g.pct(50) {
		return genPolicy(g, tier)
	}
	sc := &Scenario{Family: "policy-swarm", Sim: g.sim(), Params: map[string]int64{}}
	sc.Cache = g.cache("plain")
	sc.Cache.MaxSize = int64(pick(g, 1, 2, 3, 4, 5, 8, 20, 50, 100, 200, 400, 1000))
	sc.Cache.WriteBuf = pick(g, 1, 4, 16, 128)
	sc.Cache.Stripes = 1
	maxCost := sc.Cache.MaxSize
	if maxCost > 8 {
		maxCost = 8
	}
	nops := g.rng(30, 200)
	if tier == "thorough" || g.pct(15) {
		nops = g.rng(200, 1500) // long enough for the hill climber to run
		sc.Family = "policy-climber"
	}
	keys := int(sc.Cache.MaxSize)*pick(g, 1, 2, 4) + 2
	if keys > 600 {
		keys = 600
	}
	huge := g.pct(12)
	if huge {
		// byte-sized capacities (hundreds of MB to GB) with correspondingly heavy entries: region
		// arithmetic and the climber's step must stay exact far beyond 2^24
		sc.Family = "policy-huge-capacity"
		sc.Cache.MaxSize = pick(g, int64(1)<<28+12345, int64(578875687), int64(1140900076), int64(1)<<31, int64(1)<<32, int64(1)<<33+12345)
		maxCost = sc.Cache.MaxSize / int64(pick(g, 8, 16, 64))
		keys = g.rng(12, 60)
		nops = g.rng(2000, 5000) // several sample periods of the climber (640 policy events each on a small table)
	}
	p := mixParams{clients: [2]int{1, 3}, ops: [2]int{nops / 2, nops}, keys: keys, singleWriter: g.pct(50), setPct: pick(g, 20, 50, 80), getPct: pick(g, 20, 50, 80), delPct: 8, sleepPct: 1,
		ttlPct: pick(g, 0, 0, 10), ttls: []int64{1 * sec, 5 * sec}, costMax: maxCost, sleepMax: 1500 * ms}
	// now and then an entry about as heavy as the whole cache
	p.heavyPct = pick(g, 0, 3, 10)
	p.heavyCosts = []int64{sc.Cache.MaxSize, sc.Cache.MaxSize - 1, sc.Cache.MaxSize/2 + 1}
	if sc.Cache.MaxSize < 2 {
		p.heavyPct = 0
	}
	if huge {
		p.clients = [2]int{1, 2}
		p.getPct = pick(g, 60, 120, 200) // read-heavy: hits are what drives the climber here
	}
	sc.Clients = g.mixed(p)
	if p.singleWriter {
		sc.Family += ",one-writer-per-key"
	}
	sc.Sim.MaxSteps = 3000000
	sc.Epilogue = append([]Op{}, quiesce...)
	return sc
}

//go:norace
func setupC07(env *simEnv) {
	rd := env.rd
	if simrt.RaceEnabled {
		return
	}
	installPolicyMonitor("C07", rd)
}

//go:norace
func installPolicyMonitor(prop string, rd *RunData) {
	sn0 := internal.Snapshot(rd.Store)
	capSum := sn0.Regions[0].Capacity + sn0.Regions[2].Capacity
	lastWin := sn0.Regions[0].Capacity
	simrt.OnRelease(internal.PolicyMuKey(rd.Store), func() {
		rd.MonChecks++
		sn := internal.Snapshot(rd.Store)
		neg := ""
		for _, rg := range sn.Regions {
			if rg.Len < 0 {
				neg = ",negative-entry-weight"
			}
			for _, e := range rg.Entries {
				if e.PolicyWeight < 0 {
					neg = ",negative-entry-weight"
				}
			}
		}
		for _, e := range accountingErrors(sn, true) {
			rd.violate(prop+"/invariant/"+classifyInv(e)+neg, "after a policy step: "+e+" | state: "+dumpRegions(sn))
		}
		if sn.Regions[0].Capacity+sn.Regions[2].Capacity != capSum {
			rd.violate(prop+"/invariant/capacity-not-conserved", fmt.Sprintf("window capacity %d + protected capacity %d != initial %d", sn.Regions[0].Capacity, sn.Regions[2].Capacity, capSum))
		}
		if sn.Regions[0].Capacity != lastWin {
			if sn.Regions[0].Capacity > lastWin {
				probe("c07.window-grew")
			} else {
				probe("c07.window-shrank")
			}
			lastWin = sn.Regions[0].Capacity
		}
	})
}

func classifyInv(e string) string {
	switch {
	case strings.HasPrefix(e, "ring"):
		return "ring"
	case strings.Contains(e, "two regions"):
		return "double-link"
	case strings.Contains(e, "flag"):
		return "flags"
	case strings.Contains(e, "recorded size"):
		return "region-size"
	case strings.Contains(e, "recorded count"):
		return "region-count"
	case strings.Contains(e, "policy total") && strings.Contains(e, "exceeds"):
		return "over-capacity"
	case strings.Contains(e, "policy total"):
		return "total"
	case strings.Contains(e, "wrapped"):
		return "wrap-around"
	case strings.Contains(e, "window capacity"):
		return "window-min"
	}
	return "other"
}

func checkC07(rd *RunData) []Violation {
	// attribute: did two clients change the cost of one key in this run? (their
	// asynchronous cost deltas can be applied out of order: known finding)
	cw := map[int]map[int]bool{}
	for _, r := range rd.Recs {
		if r.Op.Kind == "set" && r.Client >= 0 {
			if cw[r.Op.Key] == nil {
				cw[r.Op.Key] = map[int]bool{}
			}
			cw[r.Op.Key][r.Client] = true
		}
	}
	writers := "one-cost-writer-per-key"
	for _, m := range cw {
		if len(m) > 1 {
			writers = "concurrent-cost-updates"
		}
	}
	for i := range rd.Monitor {
		rd.Monitor[i].Sig += "," + writers
	}
	return nil
}

// ---------------- C16 ----------------

func genC16(g *gen, tier string) *Scenario {
	sc := &Scenario{Sim: g.sim(), Params: map[string]int64{}}
	kind := pick(g, "plain", "loading")
	sc.Family = kind
	sc.Cache = g.cache(kind)
	sc.Cache.MaxSize = int64(pick(g, 2, 4, 8, 16, 64))
	if g.pct(50) {
		sc.Sim.AtomicFiles = []string{"counter.go"}
	}
	// (entry pool off: with the pool on the unchanged tree itself drifts - a recycled entry can receive an
	// event of its previous life, e.g. a region size of -1 with no entries, about once in 5000 pool runs -
	// which the README documents and C02 excludes; see DESIGN 7.6, C16-m2)
	sc.Cache.Parallelism = pick(g, 1, 2, 4, 8)
	p := mixParams{clients: [2]int{2, 5}, ops: [2]int{4, 20}, keys: g.rng(2, 10), setPct: 35, getPct: 45, delPct: 8, rangePct: 5, viewPct: 4, sleepPct: 3,
		ttlPct: pick(g, 0, 20), ttls: []int64{500 * ms, 2 * sec, 100 * sec}, costMax: 2, sleepMax: 1200 * ms, rangeStopPct: 50}
	sc.Clients = g.mixed(p)
	sc.Epilogue = []Op{{Kind: "stats"}, {Kind: "waitidle"}, {Kind: "wait"}, {Kind: "waitidle"}, {Kind: "snap", Label: "final"},
		{Kind: "len"}, {Kind: "size"}, {Kind: "range"}, {Kind: "range", N: g.rng(1, 3)}, {Kind: "snap", Label: "after"}}
	return sc
}

func checkC16(rd *RunData) []Violation {
	if rd.Res.Verdict != "ok" {
		return nil
	}
	var vs []Violation
	// A Get "returned a value" from the cache when it hit. On a loading cache a
	// Get that runs or joins a load also returns a value but is a miss by
	// design; a Get overlapping a load of the value it returned may be either
	// (it joined the flight, or it hit the freshly stored entry), so Hits() is
	// bounded from both sides there and exact on a plain cache.
	gets, hits, maybe := 0, 0, 0
	// when did the write that produced each value complete? A Get that returns a
	// value whose write (Set, or load-and-store including the leader's whole Get)
	// overlaps the Get may have missed first and then found / joined it: it is
	// counted as a hit or as a miss, both are right. A Get that returns a value
	// whose write had completed before the Get was invoked is a hit.
	wret := map[int64]uint64{}
	for _, r := range rd.Recs {
		if r.Op.Kind == "set" {
			wret[r.Val] = r.Ret
			if r.Open {
				wret[r.Val] = ^uint64(0)
			}
		}
	}
	for _, l := range rd.Loader {
		end := ^uint64(0)
		for _, r := range rd.Recs {
			if r.Op.Kind == "get" && r.Client >= 0 && rd.ClientTask[r.Client+1] == l.Task && r.Inv < l.Start && !r.Open && r.Ret > l.Start {
				end = r.Ret // the flight stays joinable until the leader's Get has returned
			}
		}
		wret[l.Val] = end
	}
	for _, r := range rd.Recs {
		if r.Op.Kind == "get" && r.Client >= 0 {
			gets++
			if !r.Ok {
				continue
			}
			if w, ok := wret[r.Val]; ok && w < r.Inv {
				hits++
			} else {
				maybe++
			}
		}
	}
	probeN("c16.gets", gets)
	probeN("c16.hits-certain", hits)
	probeN("c16.hits-or-misses-overlapping-their-write", maybe)
	for _, r := range rd.Recs {
		if r.Client == -1 && r.Op.Kind == "stats" {
			if uint64(r.N)+r.N2 != uint64(gets) {
				vs = append(vs, Violation{"C16/stats/hits-plus-misses", fmt.Sprintf("Hits()+Misses() = %d+%d but %d Get calls were made", r.N, r.N2, gets)})
			}
			if r.N < hits || r.N > hits+maybe {
				vs = append(vs, Violation{"C16/stats/hits", fmt.Sprintf("Hits() = %d but %d Get calls returned a value from the cache (+%d that overlapped a load of the value they returned)", r.N, hits, maybe)})
			}
		}
	}
	sn, after := rd.Snaps["final"], rd.Snaps["after"]
	if sn == nil || after == nil {
		return vs
	}
	// the views are compared with the white-box snapshot only if nothing changed in between
	if len(sn.Resident) != len(after.Resident) {
		return vs
	}
	var sum int64
	for _, e := range sn.Resident {
		sum += e.Weight
	}
	for _, r := range rd.Recs {
		if r.Client != -1 || r.Inv < rd.SnapAt["final"] {
			continue
		}
		switch r.Op.Kind {
		case "len":
			if r.N != len(sn.Resident) {
				vs = append(vs, Violation{"C16/len", fmt.Sprintf("Len() = %d but %d entries are resident", r.N, len(sn.Resident))})
			}
		case "size":
			if int64(r.N) != sum {
				vs = append(vs, Violation{"C16/estimated-size", fmt.Sprintf("EstimatedSize() = %d but resident cost is %d", r.N, sum)})
			}
		case "range":
			probe("c16.range-compared")
			now := r.InvT - rd.ClockStart(sn)
			nowEnd := r.RetT - rd.ClockStart(sn)
			must := map[int]int64{} // unexpired for the whole Range
			may := map[int]int64{}
			for _, e := range sn.Resident {
				if e.Expire == 0 || e.Expire > nowEnd {
					must[e.Key] = e.Value
				}
				if e.Expire == 0 || e.Expire > now {
					may[e.Key] = e.Value
				}
			}
			seen := map[int]int{}
			for _, kv := range r.Pairs {
				seen[kv.K]++
				if v, ok := may[kv.K]; !ok || v != kv.V {
					vs = append(vs, Violation{"C16/range/wrong-pair", fmt.Sprintf("Range visited (%d,%d) which is not a resident unexpired pair", kv.K, kv.V)})
				}
			}
			for k, n := range seen {
				if n > 1 {
					vs = append(vs, Violation{"C16/range/visited-twice", fmt.Sprintf("Range visited key %d %d times", k, n)})
				}
			}
			if r.Op.N == 0 {
				for k := range must {
					if seen[k] == 0 {
						vs = append(vs, Violation{"C16/range/missed-key", fmt.Sprintf("a full Range did not visit resident unexpired key %d", k)})
					}
				}
			} else {
				want := r.Op.N
				if len(must) < want && len(may) < want {
					want = -1
				}
				if want >= 0 && len(must) >= r.Op.N && len(r.Pairs) != r.Op.N {
					vs = append(vs, Violation{"C16/range/stop-ignored", fmt.Sprintf("Range told to stop after %d visits made %d callbacks (%d resident)", r.Op.N, len(r.Pairs), len(must))})
				}
			}
		}
	}
	return vs
}

func dumpRegions(sn *Snap) string {
	var sb strings.Builder
	fmt.Fprintf(&sb, "total=%d cap=%d;", sn.WeightedSize, sn.Capacity)
	for _, rg := range sn.Regions {
		fmt.Fprintf(&sb, " %s(len=%d,count=%d,cap=%d)[", rg.Name, rg.Len, rg.Count, rg.Capacity)
		for i, e := range rg.Entries {
			if i > 12 {
				sb.WriteString("...")
				break
			}
			fmt.Fprintf(&sb, "k%d:pw=%d/w=%d ", e.Key, e.PolicyWeight, e.Weight)
		}
		sb.WriteString("]")
	}
	return sb.String()
}
