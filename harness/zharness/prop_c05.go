package main

import (
	"fmt"
	"sort"
)

// C05 - exactly one removal notification per departed entry, with the true reason.
//
// StoreSim with a removal listener, tiny capacities (constant eviction), TTLs
// that expire inside the run, Deletes aimed at keys that are about to be
// evicted or to expire, a tiny write queue so that delete, eviction and expiry
// of one entry overlap in the asynchronous pipeline. Keys have one writer, so
// the writer's program order is the order of the writes to a key.

func init() {
	props["C05"] = &propDef{gen: genC05, check: checkC05}
}

func genC05(g *gen, tier string) *Scenario {
	sc := &Scenario{Sim: g.sim(), Params: map[string]int64{}}
	kind := pick(g, "plain", "plain", "loading")
	sc.Cache = g.cache(kind)
	sc.Cache.MaxSize = int64(pick(g, 1, 2, 3, 4, 8))
	sc.Cache.Pool = g.pct(30)
	sc.Cache.WriteChan = pick(g, 1, 1, 2, 4)
	sc.Cache.WriteBuf = pick(g, 1, 2, 4, 16)
	sc.Family = kind
	if sc.Cache.Pool {
		sc.Family += "+pool"
		sc.Sim.PoolReuse = pick(g, 50, 90, 100)
	}
	sc.Sim.Drift = pick(g, 1, 2, 3)
	if g.pct(30) {
		sc.Sim.AtomicFiles = []string{"store.go", "entry.go", "timerwheel.go"}
	}
	sc.Stubs.ListenerSlowPct = pick(g, 0, 0, 20)
	sc.Stubs.ListenerSlowDur = int64(g.rng(1, 1200)) * ms
	nc := g.rng(1, 3)
	per := g.rng(1, 3)
	ttls := []int64{200 * ms, 900 * ms, 1100 * ms, 2 * sec, 3 * sec}
	maxOps := 18
	if tier == "thorough" {
		maxOps = 40
	}
	for c := 0; c < nc; c++ {
		var ops []Op
		for n := g.rng(4, maxOps); n > 0; n-- {
			own := c*per + g.n(per)
			x := g.n(100)
			switch {
			case x < 45:
				op := Op{Kind: "set", Key: own, Cost: 1}
				if sc.Cache.MaxSize >= 2 && g.pct(30) {
					op.Cost = 2
				}
				if g.pct(30) {
					op.TTL = ttls[g.n(len(ttls))]
				}
				ops = append(ops, op)
			case x < 65:
				ops = append(ops, Op{Kind: "del", Key: own})
			case x < 85:
				ops = append(ops, Op{Kind: "get", Key: own})
			default:
				ops = append(ops, Op{Kind: "sleep", Dur: int64(g.rng(1, 1500)) * ms})
			}
		}
		sc.Clients = append(sc.Clients, ops)
	}
	// race keys: exactly one Set each, by one client, and a Delete by ANOTHER client at about the same
	// time (their events can reach the policy in either order); the oracle for them needs no order
	if len(sc.Clients) >= 2 && g.pct(60) {
		for k, n := 500, g.rng(1, 4); n > 0; n, k = n-1, k+1 {
			a := g.n(len(sc.Clients))
			b := (a + 1 + g.n(len(sc.Clients)-1)) % len(sc.Clients)
			ia, ib := g.n(len(sc.Clients[a])+1), g.n(len(sc.Clients[b])+1)
			set := Op{Kind: "set", Key: k, Cost: 1}
			if g.pct(20) {
				set.TTL = ttls[g.n(len(ttls))]
			}
			sc.Clients[a] = append(sc.Clients[a][:ia], append([]Op{set}, sc.Clients[a][ia:]...)...)
			sc.Clients[b] = append(sc.Clients[b][:ib], append([]Op{{Kind: "del", Key: k}}, sc.Clients[b][ib:]...)...)
			if g.pct(30) {
				sc.Clients[b] = append(sc.Clients[b], Op{Kind: "del", Key: k})
			}
		}
	}
	// a client that only inserts fresh keys: capacity pressure
	if g.pct(70) {
		var ops []Op
		for n, k := g.rng(2, 14), 1000; n > 0; n-- {
			ops = append(ops, Op{Kind: "set", Key: k, Cost: 1})
			k++
			if g.pct(40) {
				ops = append(ops, Op{Kind: "sleep", Dur: int64(g.rng(1, 600)) * ms})
			}
		}
		sc.Clients = append(sc.Clients, ops)
	}
	sc.Epilogue = append([]Op{{Kind: "sleep", Dur: int64(g.rng(0, 4500)) * ms}}, quiesce...)
	return sc
}

func checkC05(rd *RunData) []Violation {
	if rd.Res.Verdict != "ok" {
		return nil
	}
	sn := rd.Snaps["final"]
	if sn == nil {
		return nil
	}
	var vs []Violation
	fam := "nopool"
	if rd.Sc.Cache.Pool {
		fam = "pool"
	}
	recs := sortedRecs(rd.Recs)
	type wv struct {
		key      int
		ev       c06ev
		accepted bool
	}
	stored := map[int64]*wv{}
	byKey := map[int][]c06ev{}
	for _, r := range recs {
		switch r.Op.Kind {
		case "set":
			ev := c06ev{kind: "set", inv: r.Inv, ret: r.Ret, invT: r.InvT, retT: r.RetT, ok: r.Ok, ttl: r.Op.TTL, val: r.Val, desc: r.Op.String()}
			stored[r.Val] = &wv{r.Op.Key, ev, r.Ok}
			if r.Ok {
				byKey[r.Op.Key] = append(byKey[r.Op.Key], ev)
			}
		case "del":
			byKey[r.Op.Key] = append(byKey[r.Op.Key], c06ev{kind: "del", inv: r.Inv, ret: r.Ret, invT: r.InvT, retT: r.RetT, desc: r.Op.String()})
		}
	}
	for _, l := range rd.Loader {
		if l.Outcome == "ok" && l.End != 0 {
			ev := c06ev{kind: "load", inv: l.Start, ret: l.End, invT: l.EndT, retT: l.EndT, ok: true, ttl: l.TTL, val: l.Val, desc: "loader " + l.Token}
			stored[l.Val] = &wv{l.Key, ev, l.Cost <= rd.Sc.Cache.MaxSize}
			if l.Cost <= rd.Sc.Cache.MaxSize {
				byKey[l.Key] = append(byKey[l.Key], ev)
			}
		}
	}
	resident := map[KV]bool{}
	for _, e := range sn.Resident {
		resident[KV{e.Key, e.Value}] = true
	}
	notes := map[KV][]LRec{}
	for _, l := range rd.Listener {
		kv := KV{l.Key, l.Val}
		notes[kv] = append(notes[kv], l)
	}
	kvs := make([]KV, 0, len(notes))
	for kv := range notes {
		kvs = append(kvs, kv)
	}
	sort.Slice(kvs, func(i, j int) bool { return kvs[i].K < kvs[j].K || kvs[i].K == kvs[j].K && kvs[i].V < kvs[j].V })
	for _, kv := range kvs {
		ls := notes[kv]
		if len(ls) > 1 {
			vs = append(vs, Violation{fmt.Sprintf("C05/notified-twice/%s+%s,%s", reasonName[ls[0].Reason%3], reasonName[ls[1].Reason%3], fam), fmt.Sprintf("key %d value %d was reported to the removal listener %d times (seq %d %s, seq %d %s)", kv.K, kv.V, len(ls), ls[0].Seq, reasonName[ls[0].Reason%3], ls[1].Seq, reasonName[ls[1].Reason%3])})
		}
		w := stored[kv.V]
		switch {
		case w == nil || w.key != kv.K:
			vs = append(vs, Violation{"C05/notified-never-stored/foreign," + fam, fmt.Sprintf("the listener was called for key %d value %d (%s) which was never written to that key", kv.K, kv.V, reasonName[ls[0].Reason%3])})
			continue
		case !w.accepted:
			vs = append(vs, Violation{"C05/notified-never-stored/refused," + fam, fmt.Sprintf("the listener was called for key %d value %d (%s) although %s was refused (returned false / not admitted)", kv.K, kv.V, reasonName[ls[0].Reason%3], w.ev.desc)})
			continue
		}
		if resident[kv] {
			vs = append(vs, Violation{"C05/notified-but-resident/" + reasonName[ls[0].Reason%3] + "," + fam, fmt.Sprintf("key %d value %d was reported %s but is still resident after Wait", kv.K, kv.V, reasonName[ls[0].Reason%3])})
		}
	}
	// keys that received exactly one accepted write in the whole run (whoever deleted them, in whatever
	// order the events travelled): the value is resident, or it left and was notified exactly once
	for k, ws := range byKey {
		if k < 500 || k >= 1000 {
			continue
		}
		var only *c06ev
		n := 0
		for i := range ws {
			if ws[i].kind != "del" {
				only = &ws[i]
				n++
			}
		}
		if n != 1 {
			continue
		}
		probe("c05.race-key-checked")
		kv := KV{k, only.val}
		if !resident[kv] && len(notes[kv]) == 0 {
			vs = append(vs, Violation{"C05/missing-notification/set-delete-race,no-notification-at-all," + fam, fmt.Sprintf("key %d: its only value %d (%s) is not resident after Wait and the removal listener was never called for it (a Delete by another client raced the Set)", k, only.val, only.desc)})
		}
		delete(byKey, k)
	}
	// per key: the value that was current when a Delete ran, and the final value, must be accounted for
	keys := make([]int, 0, len(byKey))
	for k := range byKey {
		keys = append(keys, k)
	}
	sort.Ints(keys)
	for _, k := range keys {
		ws := byKey[k]
		sort.Slice(ws, func(i, j int) bool { return ws[i].inv < ws[j].inv })
		ambiguous := false
		for i := range ws {
			if i+1 < len(ws) && ws[i+1].inv < ws[i].ret {
				ambiguous = true // a load overlapping the owner's write: order not decidable
			}
		}
		if ambiguous {
			probe("c05.key-order-ambiguous")
			continue
		}
		// deadline possibly in force for each value (own ttl or inherited from the previous value)
		var dlLo int64 // earliest possible deadline of the current value; 0 = none
		var curHas bool
		for i, w := range ws {
			if w.kind == "del" {
				curHas, dlLo = false, 0
				continue
			}
			if w.ttl > 0 {
				dlLo = satAdd(w.invT, w.ttl)
			} else if !curHas {
				dlLo = 0
			}
			curHas = true
			lastOfLife := i+1 == len(ws) || ws[i+1].kind == "del"
			kv := KV{k, w.val}
			ls := notes[kv]
			for _, l := range ls {
				switch l.Reason {
				case 0: // REMOVED: only a Delete issued after this write can be the cause
					if !(i+1 < len(ws) && ws[i+1].kind == "del") {
						vs = append(vs, Violation{"C05/wrong-reason/REMOVED-without-delete," + fam, fmt.Sprintf("key %d value %d (%s) was reported REMOVED but no Delete followed that write", k, w.val, w.desc)})
					} else if l.Seq < ws[i+1].inv {
						vs = append(vs, Violation{"C05/wrong-reason/REMOVED-before-delete," + fam, fmt.Sprintf("key %d value %d was reported REMOVED at seq %d, before the Delete was invoked (seq %d)", k, w.val, l.Seq, ws[i+1].inv)})
					}
				case 2: // EXPIRED: needs a deadline that may have passed
					if dlLo == 0 || l.T < dlLo {
						vs = append(vs, Violation{"C05/wrong-reason/EXPIRED-before-deadline," + fam, fmt.Sprintf("key %d value %d (%s) was reported EXPIRED at t=%s; earliest possible deadline: %s (0 = it has none)", k, w.val, w.desc, durStr(l.T), durStr(dlLo))})
					}
				}
			}
			if !lastOfLife {
				continue // may have been overwritten in place: zero or one notification
			}
			probe("c05.life-end-checked")
			endedBy := "end-of-run"
			if i+1 < len(ws) {
				endedBy = "delete"
			}
			switch {
			case resident[kv] && endedBy == "delete":
				vs = append(vs, Violation{"C05/deleted-but-resident/" + fam, fmt.Sprintf("key %d value %d is still resident after Wait although %s followed", k, w.val, ws[i+1].desc)})
			case !resident[kv] && len(ls) == 0:
				overlap := "no-notification-at-all"
				vs = append(vs, Violation{"C05/missing-notification/" + endedBy + "," + overlap + "," + fam, fmt.Sprintf("key %d value %d (%s) is no longer resident after Wait (its life ended by %s) but the removal listener was never called for it", k, w.val, w.desc, endedBy)})
			}
		}
	}
	return vs
}
