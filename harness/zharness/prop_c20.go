package main

import (
	"fmt"

	"github.com/Yiling-J/theine-go/internal"
	"verifsim/simrt"
)

// C20 - Wait is a write barrier and always returns.

func init() {
	props["C20"] = &propDef{gen: genC20, setup: setupC20, check: checkC20}
}

func genC20(g *gen, tier string) *Scenario {
	sc := &Scenario{Family: "waiters", Sim: g.sim(), Params: map[string]int64{}}
	sc.Cache = g.cache(pick(g, "plain", "plain", "loading"))
	sc.Cache.MaxSize = int64(pick(g, 2, 3, 4, 6, 8, 16))
	sc.Cache.WriteBuf = pick(g, 1, 2, 3, 4, 8)
	sc.Cache.WriteChan = pick(g, 1, 2, 4, 8)
	nWaiters := g.rng(1, 3)
	nWriters := g.rng(0, 2)
	if tier == "thorough" {
		nWaiters = g.rng(1, 5)
		nWriters = g.rng(0, 3)
	}
	sc.Params["waiters"] = int64(nWaiters)
	maxCost := 3
	if int(sc.Cache.MaxSize) < maxCost {
		maxCost = int(sc.Cache.MaxSize)
	}
	write := func(c int) Op {
		key := c*4 + g.n(3)
		if g.pct(25) {
			return Op{Kind: "del", Key: key}
		}
		return Op{Kind: "set", Key: key, Cost: int64(g.rng(1, maxCost))}
	}
	for c := 0; c < nWaiters; c++ {
		var ops []Op
		for r := g.rng(1, 3); r > 0; r-- {
			for w := g.rng(1, 4); w > 0; w-- {
				ops = append(ops, write(c))
			}
			ops = append(ops, Op{Kind: "wait"})
		}
		sc.Clients = append(sc.Clients, ops)
	}
	for c := nWaiters; c < nWaiters+nWriters; c++ {
		var ops []Op
		for w := g.rng(2, 10); w > 0; w-- {
			ops = append(ops, write(c))
		}
		sc.Clients = append(sc.Clients, ops)
	}
	// readers keep shards busy (a reader inside a shard lock when an eviction wants it)
	for c, n := nWaiters+nWriters, g.rng(0, 2); n > 0; n, c = n-1, c+1 {
		var ops []Op
		for r := g.rng(3, 14); r > 0; r-- {
			if g.pct(80) {
				ops = append(ops, Op{Kind: "get", Key: g.n(4*(nWaiters+nWriters) + 1)})
			} else {
				ops = append(ops, Op{Kind: "range", N: g.rng(0, 2)})
			}
		}
		sc.Clients = append(sc.Clients, ops)
	}
	if g.pct(40) {
		sc.Sim.AtomicFiles = []string{"store.go", "entry.go"}
	}
	if nWaiters > 1 {
		sc.Family = "concurrent-waiters"
	}
	if g.pct(8) {
		// a snapshot of another version is rejected (nothing is loaded), then life goes on:
		// Wait must still return for everybody
		sc.Family += ",after-rejected-load"
		sc.Clients[0] = append([]Op{{Kind: "save", Key: 1}, {Kind: "load", Key: 2}}, sc.Clients[0]...)
	}
	if g.pct(10) {
		// the evictions one write causes: a full cache of unit entries, one heavy write, Wait
		sc.Family = "heavy-displacement"
		sc.Cache.Kind = "plain"
		sc.Cache.MaxSize = int64(pick(g, 100, 300, 1000))
		sc.Cache.WriteChan, sc.Cache.WriteBuf = pick(g, 8, 64), pick(g, 16, 128)
		heavy := sc.Cache.MaxSize * int64(pick(g, 30, 50, 80, 100)) / 100
		sc.Clients = [][]Op{{{Kind: "fill", Key: 10000, N: int(sc.Cache.MaxSize)}, {Kind: "wait"}, {Kind: "set", Key: 10000 + g.n(int(sc.Cache.MaxSize)), Cost: heavy}, {Kind: "wait"}}}
		sc.Sim.AtomicFiles = nil
		sc.Sim.MaxSteps = 3000000
	}
	return sc
}

//go:norace
func setupC20(env *simEnv) {
	rd := env.rd
	env.afterOp = func(client int, w *Rec) {
		if w.Op.Kind != "wait" || simrt.RaceEnabled {
			return
		}
		probe("c20.wait-returned")
		sn := internal.Snapshot(rd.Store)
		res := residentMap(sn)
		conc := "single-wait"
		for _, r := range rd.Recs {
			if r.Op.Kind == "wait" && r.Client != client && r.Ret > w.Inv {
				conc = "concurrent-waits"
			}
		}
		for _, r := range rd.InFlight {
			if r != nil && r.Op.Kind == "wait" && r.Client != client {
				conc = "concurrent-waits"
			}
		}
		if conc == "concurrent-waits" {
			probe("c20.waits-overlapped")
		}
		// last completed write per key, and keys written again meanwhile
		last := map[int]Rec{}
		busy := map[int]bool{}
		prevSet := map[int]Rec{} // last accepted set before the last write
		othersWriting := false
		loading := rd.Sc.Cache.Kind == "loading"
		writes := func(k string) bool { return isWrite(k) || (loading && k == "get") } // a loading Get may load and store
		for _, r := range rd.Recs {
			if !writes(r.Op.Kind) {
				continue
			}
			if r.Op.Kind == "get" {
				// a load-and-store by a reader: not part of the single-writer order, the key is just busy
				if r.Ret >= w.Inv {
					busy[r.Op.Key] = true
					othersWriting = true
				}
				continue
			}
			if r.Ret < w.Inv {
				if l, ok := last[r.Op.Key]; !ok || r.Inv > l.Inv {
					if ok && l.Op.Kind == "set" && l.Ok {
						prevSet[r.Op.Key] = l
					} else if ok && l.Op.Kind == "del" {
						delete(prevSet, r.Op.Key)
					}
					last[r.Op.Key] = r
				}
			} else {
				busy[r.Op.Key] = true
				othersWriting = true
			}
		}
		for _, r := range rd.InFlight {
			if r != nil && writes(r.Op.Kind) {
				busy[r.Op.Key] = true
				othersWriting = true
			}
		}
		notified := map[KV]bool{}
		for _, l := range rd.Listener {
			notified[KV{l.Key, l.Val}] = true
		}
		for key, l := range last {
			if busy[key] {
				continue
			}
			probe("c20.barrier-key-checked")
			e := res[key]
			switch {
			case l.Op.Kind == "set" && l.Ok:
				if e == nil {
					// with other writers active the entry may be in the middle of an
					// eviction caused by one of THEIR writes; only a quiet cache is decidable
					if !othersWriting && !notified[KV{key, l.Val}] {
						rd.Pending = append(rd.Pending, PendingNote{KV{key, l.Val}, w.Ret, "C20/returned-early/" + conc + ",eviction-notified-late",
							fmt.Sprintf("Wait (client %d, inv=%d ret=%d) returned; %s by client %d had returned before it was called; the entry was already gone from the cache but its removal notification was delivered only later", client, w.Inv, w.Ret, l.Op, l.Client)})
					}
				} else if e.V == l.Val {
					for _, x := range sn.Resident {
						// applied = cost accounted; an applied entry may already be on its
						// way out again (removed flag) because of a concurrent writer
						// (with no writer active at all, a resident entry that is already out of the policy
						// is an eviction that has not been completed: the quiet-accounting rule below reports it)
						if x.Key == key && (x.PolicyWeight != x.Weight || (!x.InPolicy && x.Flags&flagRemoved == 0)) {
							rd.violate("C20/returned-early/"+conc+",write-not-applied",
								fmt.Sprintf("Wait (client %d, inv=%d ret=%d) returned; %s by client %d had returned before it was called but is not applied: inPolicy=%v cost=%d policyCost=%d", client, w.Inv, w.Ret, l.Op, l.Client, x.InPolicy, x.Weight, x.PolicyWeight))
						}
					}
				}
			case l.Op.Kind == "del":
				if p, ok := prevSet[key]; ok && e == nil && !notified[KV{key, p.Val}] {
					rd.Pending = append(rd.Pending, PendingNote{KV{key, p.Val}, w.Ret, "C20/returned-early/" + conc + ",delete-notified-late",
						fmt.Sprintf("Wait (client %d, inv=%d ret=%d) returned; %s by client %d had returned before it was called but the removal notification for value %d was delivered only later", client, w.Inv, w.Ret, l.Op, l.Client, p.Val)})
				}
			}
		}
		if !othersWriting && !rd.Sc.Cache.Pool {
			probe("c20.quiet-accounting-checked")
			errs := append(residentErrors(sn), accountingErrors(sn, true)...)
			if len(errs) > 0 {
				rd.violate("C20/returned-early/"+conc+",accounting", fmt.Sprintf("Wait (client %d) returned with no writer active but the accounting is off: %v", client, errs))
			}
		}
	}
}

func checkC20(rd *RunData) []Violation {
	var vs []Violation
	// a notification that had not been delivered when Wait returned and was
	// delivered later is a barrier violation; one that is never delivered at
	// all is C05's business (lost notification), not C20's.
	for _, p := range rd.Pending {
		for _, l := range rd.Listener {
			if l.Key == p.KV.K && l.Val == p.KV.V && l.Seq > p.After {
				vs = append(vs, Violation{p.Sig, p.Detail})
				break
			}
		}
	}
	if rd.Res.Verdict == "deadlock" || rd.Res.Verdict == "no-progress" {
		open := blockedCalls(rd)
		waits := 0
		for _, r := range open {
			if r.Op.Kind == "wait" {
				waits++
			}
		}
		for _, r := range open {
			if r.Op.Kind != "wait" {
				continue
			}
			conc := "single-wait"
			for _, o := range rd.Recs {
				if o.Op.Kind == "wait" && o.Client != r.Client && (o.Open || o.Ret > r.Inv) {
					conc = "concurrent-waits"
				}
			}
			vs = append(vs, Violation{"C20/blocked-forever/" + conc,
				fmt.Sprintf("Wait called by client %d (inv=%d) never returns: kernel verdict %s (%s); %d Wait call(s) blocked", r.Client, r.Inv, rd.Res.Verdict, rd.Res.Detail, waits)})
		}
	}
	return vs
}
