package main

import (
	"fmt"
	"unsafe"

	"verifsim/simrt"
)

type gen struct{ r *simrt.Rng }

func newGen(seed uint64) *gen { return &gen{simrt.NewRng(simrt.Derive(seed, 99))} }

func (g *gen) n(n int) int { return g.r.Intn(n) }

// rng returns a value in [lo,hi].
func (g *gen) rng(lo, hi int) int {
	if hi <= lo {
		return lo
	}
	return lo + g.r.Intn(hi-lo+1)
}
func (g *gen) pct(p int) bool { return g.r.Intn(100) < p }

func pick[T any](g *gen, xs ...T) T { return xs[g.n(len(xs))] }

const (
	ns  = int64(1)
	us  = 1000 * ns
	ms  = 1000 * us
	sec = 1000 * ms
)

// sim draws the scheduler / drift / yield-class swarm for one run.
func (g *gen) sim() SimCfg {
	s := SimCfg{}
	switch g.n(10) {
	case 0, 1, 2:
		s.Sched = simrt.SchedUniform
	case 3, 4, 5, 6:
		s.Sched = simrt.SchedSticky
		s.SwitchPct = pick(g, 1, 3, 5, 10, 20, 35)
	default:
		s.Sched = simrt.SchedPCT
		s.PCTDepth = g.rng(0, 3)
	}
	s.Drift = pick(g, 0, 1, 1, 2, 2, 3)
	s.ShuffleMaps = g.pct(50)
	s.PoolReuse = pick(g, 0, 50, 90, 100)
	s.PoolDrop = pick(g, 0, 0, 10, 50)
	return s
}

// cache draws a small-cache configuration (where miss, eviction and
// back-pressure paths run).
func (g *gen) cache(kind string) CacheCfg {
	c := CacheCfg{Kind: kind}
	c.MaxSize = int64(pick(g, 1, 2, 3, 4, 5, 8, 12, 16, 32))
	c.WriteChan = pick(g, 1, 1, 2, 3, 4, 8, 64)
	c.WriteBuf = pick(g, 1, 2, 2, 3, 4, 8, 16, 128)
	c.Stripes = pick(g, 1, 1, 2, 4)
	c.Parallelism = pick(g, 1, 2, 4)
	c.Listener = true
	if kind == "hybrid" || kind == "hybridloading" {
		c.Workers = g.rng(1, 3)
		c.Prob = 1
	}
	return c
}

// ---------------- shared oracle helpers ----------------

const (
	flagRemoved = 1 << 3
	flagFromNVM = 1 << 4
	flagDeleted = 1 << 5
)

// accountingErrors checks the C02(a)/C07 equalities on a snapshot.
func accountingErrors(sn *Snap, checkCap bool) []string {
	var errs []string
	add := func(f string, a ...any) { errs = append(errs, fmt.Sprintf(f, a...)) }
	inRegion := map[unsafe.Pointer]string{}
	var total int64
	for _, rg := range sn.Regions {
		if rg.RingErr != "" {
			add("ring: %s", rg.RingErr)
			continue
		}
		var sum int64
		for _, e := range rg.Entries {
			sum += e.PolicyWeight
			if prev, dup := inRegion[e.Ptr]; dup {
				add("entry k=%d is linked in two regions (%s and %s)", e.Key, prev, rg.Name)
			}
			inRegion[e.Ptr] = rg.Name
			if e.Region != rg.Name {
				add("entry k=%d is linked in %s but flagged %q (flags=%#x)", e.Key, rg.Name, e.Region, e.Flags)
			}
			n := 0
			for _, b := range []int8{1 << 1, 1 << 2, 1 << 6} {
				if e.Flags&b != 0 {
					n++
				}
			}
			if n != 1 {
				add("entry k=%d in %s carries %d region flags (flags=%#x)", e.Key, rg.Name, n, e.Flags)
			}
		}
		if sum != rg.Len {
			add("region %s: recorded size %d != sum of entry costs %d", rg.Name, rg.Len, sum)
		}
		if len(rg.Entries) != rg.Count {
			add("region %s: recorded count %d != number of entries %d", rg.Name, rg.Count, len(rg.Entries))
		}
		total += rg.Len
	}
	if uint(total) != sn.WeightedSize {
		add("policy total %d != sum of region sizes %d", sn.WeightedSize, total)
	}
	if sn.WeightedSize >= 1<<62 {
		add("policy total wrapped around: %d", sn.WeightedSize)
	}
	for _, rg := range sn.Regions {
		if rg.Capacity >= 1<<62 {
			add("region %s capacity wrapped around: %d", rg.Name, rg.Capacity)
		}
	}
	if sn.Regions[0].Capacity < 1 {
		add("window capacity %d < 1", sn.Regions[0].Capacity)
	}
	if checkCap && sn.WeightedSize > sn.Capacity {
		add("policy total %d exceeds capacity %d", sn.WeightedSize, sn.Capacity)
	}
	return errs
}

// residentErrors checks that every resident entry is known to the policy
// exactly once with its current cost, and that the policy tracks no ghosts.
func residentErrors(sn *Snap) []string {
	var errs []string
	add := func(f string, a ...any) { errs = append(errs, fmt.Sprintf(f, a...)) }
	linked := map[unsafe.Pointer]bool{}
	for _, rg := range sn.Regions {
		for _, e := range rg.Entries {
			linked[e.Ptr] = true
		}
	}
	res := map[unsafe.Pointer]bool{}
	var sum int64
	for _, e := range sn.Resident {
		res[e.Ptr] = true
		sum += e.Weight
		if !linked[e.Ptr] {
			add("untracked-resident: k=%d v=%d cost=%d is in the map but in no policy region (flags=%#x)", e.Key, e.Value, e.Weight, e.Flags)
			continue
		}
		if e.PolicyWeight != e.Weight {
			add("cost-mismatch: k=%d cost=%d but policy accounts %d", e.Key, e.Weight, e.PolicyWeight)
		}
		if e.Flags&flagRemoved != 0 {
			add("removed-flag: resident k=%d carries the removed flag: later events for it are ignored", e.Key)
		}
	}
	for _, rg := range sn.Regions {
		for _, e := range rg.Entries {
			if !res[e.Ptr] {
				add("ghost: policy region %s tracks k=%d v=%d which is not resident", rg.Name, e.Key, e.Value)
			}
		}
	}
	if sum > int64(sn.Capacity) {
		add("over-capacity: resident cost %d > MaxSize %d", sum, sn.Capacity)
	}
	return errs
}

func residentMap(sn *Snap) map[int]*struct {
	V      int64
	Weight int64
	Expire int64
} {
	m := map[int]*struct {
		V      int64
		Weight int64
		Expire int64
	}{}
	for _, e := range sn.Resident {
		m[e.Key] = &struct {
			V      int64
			Weight int64
			Expire int64
		}{e.Value, e.Weight, e.Expire}
	}
	return m
}

func isWrite(k string) bool { return k == "set" || k == "del" }

// blockedCalls lists harness calls that never returned, for kernel verdicts
// deadlock / no-progress.
func blockedCalls(rd *RunData) []Rec {
	var out []Rec
	for _, r := range rd.Recs {
		if r.Open {
			out = append(out, r)
		}
	}
	return out
}
