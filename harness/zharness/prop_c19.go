package main

// C19 - no data races in the default configuration.
//
// The race tier: this worker is built with -race. Token hand-offs between
// simulated tasks are hidden from the detector (runtime.RaceDisable) and the
// shims perform the real synchronisation operations, so a report means that
// in this seeded schedule two conflicting accesses are not ordered by the
// library's own locks / atomics / channels. Scenarios are borrowed from the
// other properties' generators (entry pool off), with an extra client that
// overlaps the operations the suite barely overlaps: SaveCache, Range, Len,
// EstimatedSize, Stats, Wait and Close.

func init() {
	props["C19"] = &propDef{gen: genC19, check: checkC19}
}

func genC19(g *gen, tier string) *Scenario {
	var sc *Scenario
	base := g.n(9)
	switch base {
	case 0:
		sc = genC01(g, tier)
	case 1:
		sc = genC02(g, tier)
	case 2:
		sc = genC05(g, tier)
	case 3:
		sc = genC10(g, tier)
	case 4:
		sc = genC13(g, tier)
	case 5:
		sc = genC14(g, tier)
	case 6:
		sc = genC16(g, tier)
	case 7:
		sc = genC20(g, tier)
	default:
		sc = genC06(g, tier)
	}
	sc.Family = "race:" + sc.Cache.Kind
	sc.Cache.Pool = false
	sc.Cache.Listener = true
	sc.Sim.PoolReuse = pick(g, 0, 50, 100) // the library's internal pools (tokens, call records) still recycle
	sc.Sim.MaxSteps = 400000
	hybrid := sc.Cache.Kind == "hybrid" || sc.Cache.Kind == "hybridloading"
	// the observer: views and persistence overlapping the writers
	var ops []Op
	for n := g.rng(3, 12); n > 0; n-- {
		switch x := g.n(100); {
		case x < 25:
			ops = append(ops, Op{Kind: "save", Key: 1})
		case x < 40 && !hybrid:
			ops = append(ops, Op{Kind: "range", N: g.rng(0, 2)})
		case x < 55 && !hybrid:
			ops = append(ops, Op{Kind: pick(g, "len", "size", "stats")})
		case x < 65 && !hybrid && base != 7:
			ops = append(ops, Op{Kind: "wait"})
		case x < 80:
			ops = append(ops, Op{Kind: "get", Key: g.n(4)})
		default:
			ops = append(ops, Op{Kind: "sleep", Dur: int64(g.rng(1, 900)) * ms})
		}
	}
	if base != 3 && g.pct(35) {
		ops = append(ops, Op{Kind: "close"})
		sc.Epilogue = nil
	}
	sc.Clients = append(sc.Clients, ops)
	if len(sc.Epilogue) > 0 {
		// epilogues of the borrowed generators may contain white-box steps that do nothing in race builds
		sc.Epilogue = []Op{{Kind: "waitidle"}}
	}
	return sc
}


// checkC19 has no oracle of its own (the race detector is the oracle); it
// measures which of the rarely-overlapped operations actually overlapped a
// writer in this run.
func checkC19(rd *RunData) []Violation {
	for _, r := range rd.Recs {
		switch r.Op.Kind {
		case "save", "range", "len", "size", "stats", "wait", "close":
			for _, w := range rd.Recs {
				if (isWrite(w.Op.Kind) || w.Op.Kind == "get") && w.Client != r.Client && w.Inv < r.Ret && (w.Open || w.Ret > r.Inv) {
					probe("c19." + r.Op.Kind + "-overlapped-" + w.Op.Kind)
					break
				}
			}
		}
	}
	if len(rd.Listener) > 0 {
		probe("c19.listener-called")
	}
	return nil
}
