package main

import (
	"fmt"
	"sort"
	"strings"

	"github.com/Yiling-J/theine-go/internal"
	"verifsim/simrt"
)

type K = int
type V = int64

type Snap = internal.WBSnapshot[K, V]

// ---------------- scenario (pure data: replayable, shrinkable) ----------------

type Op struct {
	Kind  string `json:"k"`             // set get del range wait len size stats close sleep save load waitidle advance stall snap
	Key   int    `json:"key,omitempty"` // key
	Cost  int64  `json:"cost,omitempty"`
	TTL   int64  `json:"ttl,omitempty"`   // ns; 0 = none
	Dur   int64  `json:"dur,omitempty"`   // sleep / advance / stall duration ns
	N     int    `json:"n,omitempty"`     // range: stop after n visits (0 = all); repeat count
	Site  string `json:"site,omitempty"`  // stall: task name substring
	Label string `json:"label,omitempty"` // snap label
}

func (o Op) String() string {
	s := o.Kind
	switch o.Kind {
	case "set":
		s += fmt.Sprintf("(k=%d", o.Key)
		if o.Cost != 0 {
			s += fmt.Sprintf(",cost=%d", o.Cost)
		}
		if o.TTL != 0 {
			s += fmt.Sprintf(",ttl=%s", durStr(o.TTL))
		}
		s += ")"
	case "get", "del":
		s += fmt.Sprintf("(k=%d)", o.Key)
	case "sleep", "advance":
		s += "(" + durStr(o.Dur) + ")"
	case "restart":
		s += "(down=" + durStr(o.Dur)
		if o.Cost > 0 && o.Cost < 100 {
			s += fmt.Sprintf(",torn=%d%%", o.Cost)
		}
		s += ")"
	case "stall":
		s += "(" + o.Site + "," + durStr(o.Dur) + ")"
	case "range":
		if o.N > 0 {
			s += fmt.Sprintf("(stop=%d)", o.N)
		}
	}
	return s
}

func durStr(ns int64) string {
	switch {
	case ns%1e9 == 0:
		return fmt.Sprintf("%ds", ns/1e9)
	case ns%1e6 == 0:
		return fmt.Sprintf("%dms", ns/1e6)
	case ns%1e3 == 0:
		return fmt.Sprintf("%dus", ns/1e3)
	}
	return fmt.Sprintf("%dns", ns)
}

type CacheCfg struct {
	Kind        string  `json:"kind"` // plain loading hybrid hybridloading
	MaxSize     int64   `json:"maxsize"`
	Doorkeeper  bool    `json:"doorkeeper,omitempty"`
	Pool        bool    `json:"pool,omitempty"`
	Listener    bool    `json:"listener,omitempty"`
	CostFn      bool    `json:"costfn,omitempty"`
	WriteChan   int     `json:"writechan"`
	WriteBuf    int     `json:"writebuf"`
	Stripes     int     `json:"stripes"`
	Workers     int     `json:"workers,omitempty"`
	Prob        float32 `json:"prob,omitempty"`
	Reenter     bool    `json:"reenter,omitempty"` // hybrid: the secondary store's error handler calls back into the cache
	Parallelism int     `json:"par"`
}

type SimCfg struct {
	Sched       int      `json:"sched"`
	SwitchPct   int      `json:"switchpct,omitempty"`
	PCTDepth    int      `json:"pctdepth,omitempty"`
	Drift       int      `json:"drift"`
	AtomicAll   bool     `json:"atomicall,omitempty"`
	AtomicFiles []string `json:"atomicfiles,omitempty"`
	ShuffleMaps bool     `json:"shufflemaps,omitempty"`
	PoolReuse   int      `json:"poolreuse,omitempty"`
	PoolDrop    int      `json:"pooldrop,omitempty"`
	MaxSteps    int64    `json:"maxsteps,omitempty"`
	StartNanos  int64    `json:"startnanos,omitempty"`
}

// Stub behaviour: rates in percent, decided per call from the run's PRNG.
type StubCfg struct {
	ListenerSlowPct int   `json:"lslow,omitempty"`
	ListenerSlowDur int64 `json:"lslowdur,omitempty"`
	LoaderErrPct    int   `json:"lderr,omitempty"`
	LoaderPanicPct  int   `json:"ldpanic,omitempty"`
	LoaderExitPct   int   `json:"ldexit,omitempty"`
	LoaderSlowPct   int   `json:"ldslow,omitempty"`
	LoaderSlowDur   int64 `json:"ldslowdur,omitempty"`
	LoaderTTLPct    int   `json:"ldttl,omitempty"`
	LoaderTTL       int64 `json:"ldttlv,omitempty"`
	LoaderCostMax   int64 `json:"ldcost,omitempty"` // loader costs drawn in 1..LoaderCostMax (0: cost 1)
	LoaderOverPct   int   `json:"ldover,omitempty"` // loader returns cost > MaxSize
	SecGetErrPct    int   `json:"sgerr,omitempty"`
	SecSetErrPct    int   `json:"sserr,omitempty"`
	SecDelErrPct    int   `json:"sderr,omitempty"`
	SecSlowPct      int   `json:"sslow,omitempty"`
	SecSlowDur      int64 `json:"sslowdur,omitempty"`
}

type Scenario struct {
	Prop     string           `json:"prop"`
	Family   string           `json:"family"` // generator family within the property
	Runner   string           `json:"runner,omitempty"` // "" = store scenario; wheel | buffer | stream = component simulators
	Seed     uint64           `json:"seed"`
	Cache    CacheCfg         `json:"cache"`
	Sim      SimCfg           `json:"sim"`
	Stubs    StubCfg          `json:"stubs"`
	Clients  [][]Op           `json:"clients"`
	Epilogue []Op             `json:"epilogue,omitempty"` // run by root after all clients joined
	Avoid    []string         `json:"avoid,omitempty"`    // known-finding triggers this scenario was generated to avoid
	Params   map[string]int64 `json:"params,omitempty"`
	// recorded scheduling choices (index into the kernel's candidate list at every
	// scheduling decision); when UseChoices is set the run follows them instead of
	// drawing the schedule from the seed - this is what schedule minimisation edits
	Choices    []int32 `json:"choices,omitempty"`
	UseChoices bool    `json:"use_choices,omitempty"`
}

// ---------------- recorded history ----------------

type KV struct {
	K int   `json:"k"`
	V int64 `json:"v"`
}

type Rec struct {
	Client int    `json:"c"`
	Idx    int    `json:"i"`
	Op     Op     `json:"op"`
	Inv    uint64 `json:"inv"`
	Ret    uint64 `json:"ret"`
	InvT   int64  `json:"invt"`
	RetT   int64  `json:"rett"`
	Val    int64  `json:"val,omitempty"` // value written (set) or read (get)
	Ok     bool   `json:"ok,omitempty"`  // get: hit; set: accepted
	Err    string `json:"err,omitempty"` // error text
	Panic  string `json:"panic,omitempty"`
	Exit   bool   `json:"exit,omitempty"` // the call ended in runtime.Goexit
	Open   bool   `json:"open,omitempty"` // never returned
	N      int    `json:"n,omitempty"`    // len / size / visits
	N2     uint64 `json:"n2,omitempty"`   // stats: misses
	Pairs  []KV   `json:"pairs,omitempty"`
	Tag    string `json:"tag,omitempty"`
	Stale  int64  `json:"stale,omitempty"` // white-box: max staleness (ns) of the cached clock at invoke/return
}

type LRec struct { // removal listener call
	Seq    uint64 `json:"seq"`
	T      int64  `json:"t"`
	Key    int    `json:"k"`
	Val    int64  `json:"v"`
	Reason int    `json:"r"` // 0 REMOVED 1 EVICTED 2 EXPIRED
	Task   int    `json:"task"`
	Slow   int64  `json:"slow,omitempty"` // the stub slept this long inside the call (injected slow listener)
}

type LdRec struct { // loader invocation
	Key     int    `json:"k"`
	Start   uint64 `json:"s"`
	End     uint64 `json:"e"`
	StartT  int64  `json:"st"`
	EndT    int64  `json:"et"`
	Val     int64  `json:"v"`
	Cost    int64  `json:"cost"`
	TTL     int64  `json:"ttl"`
	Resident bool  `json:"res,omitempty"` // white-box: the key was resident and unexpired in the map when the loader was invoked
	Unreg    bool  `json:"unreg,omitempty"` // white-box: when the loader finished, its flight was no longer registered in the singleflight group
	ResVal  int64  `json:"resv,omitempty"`
	Outcome string `json:"o"` // ok err panic exit
	Token   string `json:"tok,omitempty"`
	Task    int    `json:"task"`
}

type SecRec struct { // secondary-store call
	Seq    uint64 `json:"seq"`
	T      int64  `json:"t"`
	Op     string `json:"op"` // get set del
	Key    int    `json:"k"`
	Val    int64  `json:"v"`
	Cost   int64  `json:"cost,omitempty"`
	Expire int64  `json:"exp,omitempty"`
	Found  bool   `json:"found,omitempty"`
	Err    bool   `json:"err,omitempty"`
	Task   int    `json:"task"`
}

// RestartRec: one save / close / downtime / new cache / load cycle (op "restart").
type RestartRec struct {
	BeginSeq uint64 // the restart began (SaveCache about to start)
	SaveSeq  uint64 // SaveCache had returned
	SaveT    int64
	LoadSeq  uint64 // new cache built, LoadCache about to start
	LoadT    int64
	DoneSeq  uint64 // LoadCache had returned
	DoneT    int64
	Torn     bool
	LoadErr  bool
	Restored *Snap // white-box snapshot of the new cache right after LoadCache
}

type Violation struct {
	Sig    string `json:"sig"`    // <property>/<rule>/<facts>
	Detail string `json:"detail"` // human-readable
}

type RunData struct {
	Sc           *Scenario
	Recs         []Rec
	Listener     []LRec
	Loader       []LdRec
	Sec          []SecRec
	Restarts     []RestartRec
	LoaderN      int
	AsyncErrs    int
	Snaps        map[string]*Snap
	SnapAt       map[string]uint64
	Monitor      []Violation // raised while the run proceeds (invariant monitors, in-run checks)
	Res          *simrt.Result
	Store        *internal.Store[K, V]
	Clock0       int64 // simulated time at which the cache was built
	MonChecks    int
	InFlight     []*Rec
	Pending      []PendingNote
	ClientTask   []int // task id of client c at index c+1
	Debug        []DebugLine
	Nontrivial   int   // component sims: 1 = non-trivial, -1 = trivial, 0 = default rule
	Evals        int64 // sub-cases evaluated inside this run (fault enumeration)
	Extra        map[string]any
	Checked      int   // histories checked by porcupine
	Inconclusive int   // porcupine timeouts (never reported, never a pass)
}

type DebugLine struct {
	Seq uint64
	S   string
}

var debugPolicy bool

// PendingNote: a removal notification that was missing at some instant; the
// final check decides whether it arrived late or never.
type PendingNote struct {
	KV     KV
	After  uint64
	Sig    string
	Detail string
}

//go:norace
func (rd *RunData) addRec(r Rec) { rd.Recs = append(rd.Recs, r) }

//go:norace
func (rd *RunData) violate(sig, detail string) {
	for _, v := range rd.Monitor {
		if v.Sig == sig {
			return
		}
	}
	rd.Monitor = append(rd.Monitor, Violation{sig, detail})
}

// restoredVal: was value v resident in the new cache right after the LoadCache of restart rs?
func (rd *RunData) restoredVal(rs RestartRec, v int64) (int, bool) {
	if rs.Restored == nil {
		return 0, false
	}
	for _, e := range rs.Restored.Resident {
		if e.Value == v {
			return e.Key, true
		}
	}
	return 0, false
}

func sortedRecs(rs []Rec) []Rec {
	out := append([]Rec(nil), rs...)
	sort.Slice(out, func(i, j int) bool { return out[i].Inv < out[j].Inv })
	return out
}

var reasonName = []string{"REMOVED", "EVICTED", "EXPIRED"}

func renderHistory(rd *RunData, max int) []string {
	type line struct {
		seq uint64
		s   string
	}
	var ls []line
	for _, l := range rd.Listener {
		ls = append(ls, line{l.Seq, fmt.Sprintf("    listener seq=%d t=%s k=%d v=%d %s (task %d)", l.Seq, durStr(l.T), l.Key, l.Val, reasonName[l.Reason%3], l.Task)})
	}
	for _, l := range rd.Loader {
		ls = append(ls, line{l.Start, fmt.Sprintf("    loader %s k=%d seq=[%d,%d] v=%d cost=%d ttl=%s outcome=%s (task %d)", l.Token, l.Key, l.Start, l.End, l.Val, l.Cost, durStr(l.TTL), l.Outcome, l.Task)})
	}
	for _, l := range rd.Sec {
		ls = append(ls, line{l.Seq, fmt.Sprintf("    secondary.%s seq=%d k=%d v=%d found=%v err=%v exp=%d (task %d)", l.Op, l.Seq, l.Key, l.Val, l.Found, l.Err, l.Expire, l.Task)})
	}
	for _, r := range sortedRecs(rd.Recs) {
		ls = append(ls, line{r.Inv, recString(r)})
	}
	for _, d := range rd.Debug {
		ls = append(ls, line{d.Seq, d.S})
	}
	if debugPolicy {
		for name, sn := range rd.Snaps {
			d := fmt.Sprintf("    [snapshot %q] %s resident:", name, dumpRegions(sn))
			for _, e := range sn.Resident {
				d += fmt.Sprintf(" k%d:v=%d,w=%d,pw=%d,exp=%d,fl=%#x,inpolicy=%v", e.Key, e.Value, e.Weight, e.PolicyWeight, e.Expire, e.Flags, e.InPolicy)
			}
			d += fmt.Sprintf(" writechan=%d writebuf=%d", sn.WriteChanLen, sn.WriteBufLen)
			ls = append(ls, line{rd.SnapAt[name], d})
		}
	}
	sort.SliceStable(ls, func(i, j int) bool { return ls[i].seq < ls[j].seq })
	var out []string
	for _, l := range ls {
		out = append(out, l.s)
		if len(out) >= max {
			break
		}
	}
	return out
}

func recString(r Rec) string {
	{
		s := fmt.Sprintf("c%d#%d %s inv=%d ret=%d t=[%s,%s]", r.Client, r.Idx, r.Op.String(), r.Inv, r.Ret, durStr(r.InvT), durStr(r.RetT))
		switch r.Op.Kind {
		case "set":
			s += fmt.Sprintf(" v=%d ok=%v", r.Val, r.Ok)
		case "get":
			s += fmt.Sprintf(" -> v=%d hit=%v", r.Val, r.Ok)
		case "len", "size":
			s += fmt.Sprintf(" -> %d", r.N)
		case "range":
			s += fmt.Sprintf(" -> %v", r.Pairs)
		}
		if r.Err != "" {
			s += " err=" + r.Err
		}
		if r.Panic != "" {
			s += " PANIC=" + firstLine(r.Panic)
		}
		if r.Exit {
			s += " GOEXIT"
		}
		if r.Open {
			s += " NEVER-RETURNED"
		}
		return s
	}
}

func firstLine(s string) string {
	if i := strings.IndexByte(s, '\n'); i >= 0 {
		return s[:i]
	}
	return s
}

// ClockStart converts simulated absolute time to the store clock's relative
// nanoseconds: relative = simNow - (start - epoch).
func (rd *RunData) ClockStart(sn *Snap) int64 { return sn.ClockStart - simEpochNanos }

const simEpochNanos = int64(1735689600) * 1e9

// probes raised after the run has ended (history oracles) are collected here
// and merged into the run's probe counters.
var postProbes = map[string]int{}

func probe(name string) { probeN(name, 1) }

func probeN(name string, n int) {
	if simrt.Active() {
		simrt.ProbeN(name, n)
		return
	}
	postProbes[name] += n
}
