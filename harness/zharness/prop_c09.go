package main

import (
	"fmt"
	"math"

	"github.com/Yiling-J/theine-go/internal"
	"verifsim/simrt"
)

// C09 - frequently read entries survive one-off insertions (admission quality).
//
// Two phases on one cache: an optional concurrent prelude (several clients
// under adversarial schedules, the policy lock stalled by a slow listener),
// then a sequential seeded trace driven by the root task: (a) a hot set no
// larger than half the cache read repeatedly while never-again keys are
// inserted, (b) a Zipf trace compared with an exact LRU of the same size.

func init() {
	props["C09"] = &propDef{gen: genC09, setup: setupC09, check: func(rd *RunData) []Violation { return nil }}
}

func genC09(g *gen, tier string) *Scenario {
	sc := &Scenario{Sim: g.sim(), Params: map[string]int64{}}
	kind := pick(g, "plain", "plain", "loading", "hybrid")
	sc.Cache = g.cache(kind)
	sc.Cache.Listener = true
	sc.Cache.MaxSize = int64(pick(g, 32, 50, 64, 100, 200, 500))
	if tier == "thorough" {
		sc.Cache.MaxSize = int64(pick(g, 32, 100, 500, 2000, 5000))
	}
	sc.Cache.WriteChan, sc.Cache.WriteBuf = 64, 128
	sc.Cache.Stripes = 1
	sc.Cache.Prob = 0 // hybrid: nothing is demoted, the memory tier alone is measured
	sc.Sim.Drift = pick(g, 0, 1)
	sc.Sim.Sched = simrt.SchedSticky
	sc.Sim.SwitchPct = pick(g, 5, 20)
	sc.Sim.MaxSteps = 1 << 40
	sc.Sim.PoolReuse, sc.Sim.PoolDrop = 0, 0
	mode := pick(g, "hot", "hot", "zipf")
	prelude := g.pct(50)
	sc.Family = kind + "," + mode
	if prelude {
		sc.Family += ",after-concurrent-use"
		if g.pct(50) {
			sc.Sim.AtomicFiles = []string{"buffer.go"} // the prelude interleaves the lossy buffer at single atomic steps
			sc.Sim.SwitchPct = pick(g, 20, 35)
		}
		sc.Stubs.ListenerSlowPct = pick(g, 0, 30, 100)
		sc.Stubs.ListenerSlowDur = int64(g.rng(100, 3000)) * ms
		nc := g.rng(2, 4)
		for c := 0; c < nc; c++ {
			var ops []Op
			for n := g.rng(30, 150); n > 0; n-- {
				if g.pct(70) {
					ops = append(ops, Op{Kind: "get", Key: 1 << 20 + g.n(8)})
				} else {
					ops = append(ops, Op{Kind: "set", Key: 1<<20 + g.n(int(sc.Cache.MaxSize)*2), Cost: 1})
				}
			}
			sc.Clients = append(sc.Clients, ops)
		}
	}
	sc.Params["mode"] = map[string]int64{"hot": 0, "zipf": 1}[mode]
	size := int(sc.Cache.MaxSize)
	sc.Params["hot"] = int64(g.rng(1, size/2))
	ratio := pick(g, 1, 2, 5, 10, 20) // one-off inserts per hot read
	if hot := int(sc.Params["hot"]); (ratio+1)*hot >= 2*size && g.pct(75) {
		for (ratio+1)*hot >= 2*size && ratio > 1 {
			ratio--
		}
	}
	sc.Params["ratio"] = int64(ratio)
	rounds := g.rng(30, 60) // each hot key is read this many times; at least 480 hot reads in total so that
	// the 16-slot lossy read buffer is drained many times during warm-up
	if hot := int(sc.Params["hot"]); rounds*hot < 480 {
		rounds = (480 + hot - 1) / hot
	}
	sc.Params["rounds"] = int64(rounds)
	if mode == "hot" && tier != "thorough" && g.pct(6) || mode == "hot" && tier == "thorough" && g.pct(3) {
		// the cache has a history that suited a large window: keys re-read once, shortly after their
		// insert, for hundreds of sample periods (the adaptive window grows to its maximum and the
		// climber's step decays to nothing); then the hot-set workload with a hot set of half the cache
		sc.Family += ",after-recency-history"
		sc.Cache.MaxSize = int64(pick(g, 32, 50, 64, 100))
		size = int(sc.Cache.MaxSize)
		sc.Params["recency"] = int64(g.rng(1200, 1800)) * int64(size)
		sc.Params["hot"] = int64(size/2 - 1 - g.n(size/8+1))
		sc.Params["ratio"] = int64(pick(g, 2, 3)) // reuse distance <= 2 x MaxSize, one-offs per pass >= the largest window
		// long enough for the climber to undo the large window: at MaxSize 32 its step is two entries
		// and decays, a 248-round trace ended at 0.88 and the same trace with 500 rounds at 1.0
		sc.Params["rounds"] = int64(g.rng(600, 800))
	}
	if mode == "hot" && kind != "loading" && g.pct(15) {
		sc.Cache.Doorkeeper = true
		sc.Family += ",doorkeeper"
	}
	if mode == "hot" && g.pct(30) {
		// the cache is full of other content (stored, never read) when the hot set shows up
		sc.Params["prefill"] = int64(g.rng(size, 3*size))
		// the hot keys have to win their way in against resident content first: a longer trace
		// (a 32-round trace ended at 0.945 over its last third, an 80-round one at 0.937; the same
		// traces with 300 rounds at 1.000)
		if r := int64(g.rng(240, 320)); sc.Params["rounds"] < r {
			sc.Params["rounds"] = r
		}
		sc.Family += ",prefilled"
	}
	sc.Params["skew"] = int64(pick(g, 70, 90, 100, 130))  // zipf exponent x100
	sc.Params["space"] = int64(size * pick(g, 10, 30, 100))
	sc.Params["len"] = int64(size * pick(g, 40, 80))
	sc.Params["traceseed"] = int64(g.r.Uint64() >> 2)
	sc.Epilogue = []Op{{Kind: "waitidle"}, {Kind: "wait"}, {Kind: "waitidle"}, {Kind: "xtrace"}}
	return sc
}

// exact LRU with unit costs
type lruRef struct {
	cap   int
	order []int // most recent last (small sizes: a slice is enough with index map)
	pos   map[int]int
	clock int
	last  map[int]int
}

func newLRU(cap int) *lruRef { return &lruRef{cap: cap, last: map[int]int{}} }

// access returns hit; on miss inserts (evicting the least recently used key).
func (l *lruRef) access(k int) bool {
	l.clock++
	if _, ok := l.last[k]; ok {
		l.last[k] = l.clock
		return true
	}
	if len(l.last) >= l.cap {
		// evict the least recently used (linear scan amortised by lazy heap would be nicer; caches are small)
		victim, best := -1, int(^uint(0)>>1)
		for kk, t := range l.last {
			if t < best {
				victim, best = kk, t
			}
		}
		delete(l.last, victim)
	}
	l.last[k] = l.clock
	return false
}

type zipfGen struct {
	r    *simrt.Rng
	cdf  []float64
	perm []int
}

func newZipf(r *simrt.Rng, n int, s float64) *zipfGen {
	z := &zipfGen{r: r, cdf: make([]float64, n)}
	sum := 0.0
	for i := 0; i < n; i++ {
		sum += 1 / math.Pow(float64(i+1), s)
		z.cdf[i] = sum
	}
	for i := range z.cdf {
		z.cdf[i] /= sum
	}
	return z
}

func (z *zipfGen) next() int {
	u := float64(z.r.Uint64()>>11) / float64(1<<53)
	lo, hi := 0, len(z.cdf)-1
	for lo < hi {
		m := (lo + hi) / 2
		if z.cdf[m] < u {
			lo = m + 1
		} else {
			hi = m
		}
	}
	return lo
}

func setupC09(env *simEnv) {
	rd := env.rd
	env.customOp = func(op Op, rec *Rec) {
		p := rd.Sc.Params
		api := env.api
		r := simrt.NewRng(uint64(p["traceseed"]))
		loading := rd.Sc.Cache.Kind == "loading"
		n := 0
		read := func(k int) bool {
			nl := len(rd.Loader)
			_, ok, _ := api.get(k)
			hit := ok && len(rd.Loader) == nl // a Get that ran the loader is a miss
			if !ok && !loading {
				api.set(k, int64(k)<<8|1, 1, 0) // cache-aside: a miss is followed by a Set
			}
			n++
			if n%64 == 0 {
				api.wait()
			}
			return hit
		}
		size := int(rd.Sc.Cache.MaxSize)
		cls := "fresh-cache"
		if len(rd.Sc.Clients) > 0 {
			cls = "after-concurrent-use"
		}
		if pre := int(p["prefill"]); pre > 0 {
			for pass := 0; pass < 2; pass++ { // twice: a doorkeeper refuses the first offer
				for i := 0; i < pre; i++ {
					if loading {
						api.get(1<<27 + i)
					} else {
						api.set(1<<27+i, int64(1<<27+i)<<8|1, 1, 0)
					}
					if i%64 == 0 {
						api.wait()
					}
				}
			}
			api.wait()
			probe("c09.prefilled")
		}
		if nrec := int(p["recency"]); nrec > 0 {
			next := 1 << 26
			dist := size * 8 / 10
			pending := map[int][]int{}
			for i := 0; i < nrec; i++ {
				k := next
				next++
				read(k)
				d := i + 1 + r.Intn(dist)
				pending[d] = append(pending[d], k)
				for _, old := range pending[i] {
					read(old)
				}
				delete(pending, i)
			}
			api.wait()
			probe("c09.recency-history")
			if !simrt.RaceEnabled {
				sn := internal.Snapshot(rd.Store)
				if sn.Regions[0].Capacity*2 > uint(size) {
					probe("c09.recency-history-window-above-half")
				}
			}
		}
		if p["mode"] == 0 {
			hot := int(p["hot"])
			ratio := int(p["ratio"])
			rounds := int(p["rounds"])
			next := 1 << 24
			var hits, reads int
			oneRound := func(count bool) {
				for h := 0; h < hot; h++ {
					hit := read(h)
					if count {
						reads++
						if hit {
							hits++
						}
					}
					for i := 0; i < ratio; i++ {
						if loading {
							api.get(next)
						} else {
							api.set(next, int64(next)<<8|1, 1, 0)
						}
						next++
						n++
						if n%64 == 0 {
							api.wait()
						}
					}
				}
			}
			for round := 0; round < rounds; round++ {
				oneRound(round >= rounds*2/3)
			}
			hr := float64(hits) / float64(reads)
			rec.N = int(hr * 10000)
			rd.Extra = map[string]any{"mode": "hot", "hot": hot, "maxsize": size, "ratio": ratio, "rounds": rounds, "hit_ratio_last_third": hr}
			probe("c09.hot-trace")
			// the sketch ages every 10 x MaxSize additions: measured on the unchanged tree the hot set is
			// retained completely (1.000 in 3000 traces) up to a reuse distance of 2 x MaxSize (2.5 x on
			// a cache that started empty) and degrades gradually beyond (0.94 at 2.25 when the cache was
			// full of other content before, 0.945 at 2.97, 0.77 at 5, 0.15 at 10): the known finding
			if (ratio+1)*hot >= 2*size {
				cls += ",reuse-distance>=2xMaxSize"
			} else {
				cls += ",reuse-distance<2xMaxSize"
			}
			floor := 0.95
			if p["recency"] > 0 {
				cls += ",after-recency-history"
			}
			// "converges": a trace that is not there yet is continued, in blocks of 30 rounds, until a
			// block reaches the floor or 3000 rounds have been played (slow starts are legal: a cache
			// that was full of other content took up to several hundred rounds to admit the last hot
			// key; what is not legal is a steady state below the floor). Not for the known-finding
			// class of long reuse distances, whose steady state is known to be below it.
			total := rounds
			for hr < floor && (ratio+1)*hot < 2*size && total < 3000 {
				hits, reads = 0, 0
				for i := 0; i < 30; i++ {
					oneRound(true)
				}
				total += 30
				hr = float64(hits) / float64(reads)
				probe("c09.trace-extended")
			}
			rd.Extra["rounds_played"] = total
			rd.Extra["hit_ratio_final"] = hr
			rounds = total
			if hr < floor {
				rd.violate("C09/hot-set-lost/"+cls, fmt.Sprintf("MaxSize %d, hot set of %d keys read %d times each with %d never-again inserts per read: hit ratio of hot reads over the last third of the trace is %.3f (< %.2f)", size, hot, rounds, ratio, hr, floor))
			}
		} else {
			space := int(p["space"])
			length := int(p["len"])
			z := newZipf(r, space, float64(p["skew"])/100)
			lru := newLRU(size)
			var hits, lhits int
			for i := 0; i < length; i++ {
				k := z.next()
				if read(k) {
					hits++
				}
				if lru.access(k) {
					lhits++
				}
			}
			hr, lr := float64(hits)/float64(length), float64(lhits)/float64(length)
			rec.N = int(hr * 10000)
			rd.Extra = map[string]any{"mode": "zipf", "maxsize": size, "space": space, "len": length, "skew": float64(p["skew"]) / 100, "hit_ratio": hr, "lru_hit_ratio": lr}
			probe("c09.zipf-trace")
			if hr < lr-0.02 {
				rd.violate("C09/worse-than-lru/"+cls, fmt.Sprintf("MaxSize %d, Zipf(%.2f) over %d keys, %d reads: hit ratio %.4f, exact LRU of the same size %.4f", size, float64(p["skew"])/100, space, length, hr, lr))
			}
		}
		rd.Nontrivial = 1
	}
}
