package main

import (
	"fmt"
	"math"

	"verifsim/simrt"
)

// C09 - frequently read entries survive one-off insertions (admission quality).
//
// Two phases on one cache: an optional concurrent prelude (several clients
// under adversarial schedules, the policy lock stalled by a slow listener),
// then a sequential seeded trace driven by the root task: (a) a hot set no
// larger than half the cache read repeatedly while never-again keys are
// inserted, (b) a Zipf trace compared with an exact LRU of the same size.

func init() {
	props["C09"] = &propDef{gen: genC09, setup: setupC09, check: func(rd *RunData) []Violation { return nil }}
}

func genC09(g *gen, tier string) *Scenario {
	sc := &Scenario{Sim: g.sim(), Params: map[string]int64{}}
	kind := pick(g, "plain", "plain", "loading", "hybrid")
	sc.Cache = g.cache(kind)
	sc.Cache.Listener = true
	sc.Cache.MaxSize = int64(pick(g, 32, 50, 64, 100, 200, 500))
	if tier == "thorough" {
		sc.Cache.MaxSize = int64(pick(g, 32, 100, 500, 2000, 5000))
	}
	sc.Cache.WriteChan, sc.Cache.WriteBuf = 64, 128
	sc.Cache.Stripes = 1
	sc.Cache.Prob = 0 // hybrid: nothing is demoted, the memory tier alone is measured
	sc.Sim.Drift = pick(g, 0, 1)
	sc.Sim.Sched = simrt.SchedSticky
	sc.Sim.SwitchPct = pick(g, 5, 20)
	sc.Sim.MaxSteps = 1 << 40
	sc.Sim.PoolReuse, sc.Sim.PoolDrop = 0, 0
	mode := pick(g, "hot", "hot", "zipf")
	prelude := g.pct(50)
	sc.Family = kind + "," + mode
	if prelude {
		sc.Family += ",after-concurrent-use"
		if g.pct(50) {
			sc.Sim.AtomicFiles = []string{"buffer.go"} // the prelude interleaves the lossy buffer at single atomic steps
			sc.Sim.SwitchPct = pick(g, 20, 35)
		}
		sc.Stubs.ListenerSlowPct = pick(g, 0, 30, 100)
		sc.Stubs.ListenerSlowDur = int64(g.rng(100, 3000)) * ms
		nc := g.rng(2, 4)
		for c := 0; c < nc; c++ {
			var ops []Op
			for n := g.rng(30, 150); n > 0; n-- {
				if g.pct(70) {
					ops = append(ops, Op{Kind: "get", Key: 1 << 20 + g.n(8)})
				} else {
					ops = append(ops, Op{Kind: "set", Key: 1<<20 + g.n(int(sc.Cache.MaxSize)*2), Cost: 1})
				}
			}
			sc.Clients = append(sc.Clients, ops)
		}
	}
	sc.Params["mode"] = map[string]int64{"hot": 0, "zipf": 1}[mode]
	size := int(sc.Cache.MaxSize)
	sc.Params["hot"] = int64(g.rng(1, size/2))
	ratio := pick(g, 1, 2, 5, 10, 20) // one-off inserts per hot read
	if hot := int(sc.Params["hot"]); (ratio+1)*hot >= 3*size && g.pct(75) {
		for (ratio+1)*hot >= 3*size && ratio > 1 {
			ratio--
		}
	}
	sc.Params["ratio"] = int64(ratio)
	rounds := g.rng(30, 60) // each hot key is read this many times; at least 480 hot reads in total so that
	// the 16-slot lossy read buffer is drained many times during warm-up
	if hot := int(sc.Params["hot"]); rounds*hot < 480 {
		rounds = (480 + hot - 1) / hot
	}
	sc.Params["rounds"] = int64(rounds)
	sc.Params["skew"] = int64(pick(g, 70, 90, 100, 130))  // zipf exponent x100
	sc.Params["space"] = int64(size * pick(g, 10, 30, 100))
	sc.Params["len"] = int64(size * pick(g, 40, 80))
	sc.Params["traceseed"] = int64(g.r.Uint64() >> 2)
	sc.Epilogue = []Op{{Kind: "waitidle"}, {Kind: "wait"}, {Kind: "waitidle"}, {Kind: "xtrace"}}
	return sc
}

// exact LRU with unit costs
type lruRef struct {
	cap   int
	order []int // most recent last (small sizes: a slice is enough with index map)
	pos   map[int]int
	clock int
	last  map[int]int
}

func newLRU(cap int) *lruRef { return &lruRef{cap: cap, last: map[int]int{}} }

// access returns hit; on miss inserts (evicting the least recently used key).
func (l *lruRef) access(k int) bool {
	l.clock++
	if _, ok := l.last[k]; ok {
		l.last[k] = l.clock
		return true
	}
	if len(l.last) >= l.cap {
		// evict the least recently used (linear scan amortised by lazy heap would be nicer; caches are small)
		victim, best := -1, int(^uint(0)>>1)
		for kk, t := range l.last {
			if t < best {
				victim, best = kk, t
			}
		}
		delete(l.last, victim)
	}
	l.last[k] = l.clock
	return false
}

type zipfGen struct {
	r    *simrt.Rng
	cdf  []float64
	perm []int
}

func newZipf(r *simrt.Rng, n int, s float64) *zipfGen {
	z := &zipfGen{r: r, cdf: make([]float64, n)}
	sum := 0.0
	for i := 0; i < n; i++ {
		sum += 1 / math.Pow(float64(i+1), s)
		z.cdf[i] = sum
	}
	for i := range z.cdf {
		z.cdf[i] /= sum
	}
	return z
}

func (z *zipfGen) next() int {
	u := float64(z.r.Uint64()>>11) / float64(1<<53)
	lo, hi := 0, len(z.cdf)-1
	for lo < hi {
		m := (lo + hi) / 2
		if z.cdf[m] < u {
			lo = m + 1
		} else {
			hi = m
		}
	}
	return lo
}

func setupC09(env *simEnv) {
	rd := env.rd
	env.customOp = func(op Op, rec *Rec) {
		p := rd.Sc.Params
		api := env.api
		r := simrt.NewRng(uint64(p["traceseed"]))
		loading := rd.Sc.Cache.Kind == "loading"
		n := 0
		read := func(k int) bool {
			nl := len(rd.Loader)
			_, ok, _ := api.get(k)
			hit := ok && len(rd.Loader) == nl // a Get that ran the loader is a miss
			if !ok && !loading {
				api.set(k, int64(k)<<8|1, 1, 0) // cache-aside: a miss is followed by a Set
			}
			n++
			if n%64 == 0 {
				api.wait()
			}
			return hit
		}
		size := int(rd.Sc.Cache.MaxSize)
		cls := "fresh-cache"
		if len(rd.Sc.Clients) > 0 {
			cls = "after-concurrent-use"
		}
		if p["mode"] == 0 {
			hot := int(p["hot"])
			ratio := int(p["ratio"])
			rounds := int(p["rounds"])
			next := 1 << 24
			var hits, reads int
			for round := 0; round < rounds; round++ {
				for h := 0; h < hot; h++ {
					hit := read(h)
					if round >= rounds*2/3 {
						reads++
						if hit {
							hits++
						}
					}
					for i := 0; i < ratio; i++ {
						if loading {
							api.get(next)
						} else {
							api.set(next, int64(next)<<8|1, 1, 0)
						}
						next++
						n++
						if n%64 == 0 {
							api.wait()
						}
					}
				}
			}
			hr := float64(hits) / float64(reads)
			rec.N = int(hr * 10000)
			rd.Extra = map[string]any{"mode": "hot", "hot": hot, "maxsize": size, "ratio": ratio, "rounds": rounds, "hit_ratio_last_third": hr}
			probe("c09.hot-trace")
			if (ratio+1)*hot >= 4*size {
				cls += ",reuse-distance>=4xMaxSize"
			} else {
				cls += ",reuse-distance<4xMaxSize"
			}
			if hr < 0.95 {
				rd.violate("C09/hot-set-lost/"+cls, fmt.Sprintf("MaxSize %d, hot set of %d keys read %d times each with %d never-again inserts per read: hit ratio of hot reads over the last third of the trace is %.3f (< 0.95)", size, hot, rounds, ratio, hr))
			}
		} else {
			space := int(p["space"])
			length := int(p["len"])
			z := newZipf(r, space, float64(p["skew"])/100)
			lru := newLRU(size)
			var hits, lhits int
			for i := 0; i < length; i++ {
				k := z.next()
				if read(k) {
					hits++
				}
				if lru.access(k) {
					lhits++
				}
			}
			hr, lr := float64(hits)/float64(length), float64(lhits)/float64(length)
			rec.N = int(hr * 10000)
			rd.Extra = map[string]any{"mode": "zipf", "maxsize": size, "space": space, "len": length, "skew": float64(p["skew"]) / 100, "hit_ratio": hr, "lru_hit_ratio": lr}
			probe("c09.zipf-trace")
			if hr < lr-0.02 {
				rd.violate("C09/worse-than-lru/"+cls, fmt.Sprintf("MaxSize %d, Zipf(%.2f) over %d keys, %d reads: hit ratio %.4f, exact LRU of the same size %.4f", size, float64(p["skew"])/100, space, length, hr, lr))
			}
		}
		rd.Nontrivial = 1
	}
}
