package main

import (
	"errors"
	"io"

	"verifsim/simrt"
)

// simDisk is the simulated storage behind SaveCache/LoadCache: a byte store
// whose writer can fail or crash after n bytes and whose reader returns short
// reads or fails at an offset.
type simDisk struct {
	data       []byte
	boundaries []int // offsets at which a Write call ended
	failAfter  int   // writer: error once this many bytes were accepted (-1: never)
	readFailAt int   // reader: error at this offset (-1: never)
	slow       int64 // simulated ns per call
}

func newSimDisk() *simDisk { return &simDisk{failAfter: -1, readFailAt: -1} }

var errDiskFull = errors.New("injected disk error")

type diskWriter struct {
	d     *simDisk
	chunk int
}

//go:norace
func (w *diskWriter) Write(p []byte) (int, error) {
	d := w.d
	if simrt.Active() {
		simrt.Yield(simrt.KStub)
		if d.slow > 0 {
			simrt.Sleep(d.slow)
		}
	}
	n := len(p)
	if d.failAfter >= 0 && len(d.data)+n > d.failAfter {
		n = d.failAfter - len(d.data)
		if n < 0 {
			n = 0
		}
		d.data = append(d.data, p[:n]...)
		d.boundaries = append(d.boundaries, len(d.data))
		return n, errDiskFull
	}
	d.data = append(d.data, p...)
	d.boundaries = append(d.boundaries, len(d.data))
	return n, nil
}

func (d *simDisk) writer(chunk int) io.Writer { return &diskWriter{d: d, chunk: chunk} }

type diskReader struct {
	d     *simDisk
	data  []byte
	off   int
	chunk int
}

//go:norace
func (r *diskReader) Read(p []byte) (int, error) {
	if simrt.Active() {
		simrt.Yield(simrt.KStub)
		if r.d != nil && r.d.slow > 0 {
			simrt.Sleep(r.d.slow)
		}
	}
	if r.d != nil && r.d.readFailAt >= 0 && r.off >= r.d.readFailAt {
		return 0, errDiskFull
	}
	if r.off >= len(r.data) {
		return 0, io.EOF
	}
	n := len(p)
	if r.chunk > 0 && n > r.chunk {
		n = r.chunk
	}
	if n > len(r.data)-r.off {
		n = len(r.data) - r.off
	}
	if r.d != nil && r.d.readFailAt >= 0 && r.off+n > r.d.readFailAt {
		n = r.d.readFailAt - r.off
	}
	copy(p, r.data[r.off:r.off+n])
	r.off += n
	return n, nil
}

func (d *simDisk) reader(chunk int) io.Reader { return &diskReader{d: d, data: d.data, chunk: chunk} }

func bytesReader(b []byte, chunk int) io.Reader { return &diskReader{data: b, chunk: chunk} }
