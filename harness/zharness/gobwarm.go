package main

import (
	"encoding/gob"
	"io"

	"github.com/Yiling-J/theine-go/internal"
)

// encoding/gob numbers user types in the order in which a PROCESS first meets
// them, and those numbers are written into every stream. Which scenario a
// worker happens to run first would therefore change the bytes of later
// streams (and with them how far a damaged stream is decoded): a hidden
// cross-run state. Register every type the persistence code encodes in one
// fixed order before the first run.
func init() {
	enc := gob.NewEncoder(io.Discard)
	_ = enc.Encode(&internal.DataBlock[any]{})
	_ = gob.NewEncoder(io.Discard).Encode(&internal.StoreMeta{})
	_ = gob.NewEncoder(io.Discard).Encode(&internal.Pentry[K, V]{})
	_ = gob.NewEncoder(io.Discard).Encode(1)
}
