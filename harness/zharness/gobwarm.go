package main

import (
	"encoding/gob"
	"io"

	"github.com/Yiling-J/theine-go/internal"
)

// encoding/gob numbers user types in the order in which a PROCESS first meets
// them, and those numbers are written into every stream. Which scenario a
// worker happens to run first would therefore change the bytes of later
// streams (and with them how far a damaged stream is decoded): a hidden
// cross-run state. Register every type the persistence code encodes in one
// fixed order before the first run.
func init() {
	// in the order in which a save of a non-empty cache meets them: the metadata block and its
	// payload, an entry block and its payload, the end block and its payload; then the type
	// LoadCache decodes blocks into. (A save of an EMPTY cache meets the end block before any
	// entry block: without this list a worker whose first scenario was an empty cache numbered
	// the two block types the other way round, and every later stream differed in two bytes.)
	for _, v := range []any{
		&internal.DataBlock[*internal.StoreMeta]{},
		&internal.StoreMeta{},
		&internal.DataBlock[*internal.Pentry[K, V]]{},
		&internal.Pentry[K, V]{},
		&internal.DataBlock[int]{},
		1,
		&internal.DataBlock[any]{},
	} {
		_ = gob.NewEncoder(io.Discard).Encode(v)
	}
}
