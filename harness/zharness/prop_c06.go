package main

import (
	"fmt"
	"math"
	"sort"
)

// C06 - a successful Set is visible and is never lost without a reason.
//
// StoreSim on the simulated clock in two regimes (no pressure: the sum over
// keys of the largest cost ever offered stays within MaxSize, so nothing may
// be evicted; pressure: small MaxSize). Keys have one writer each, so program
// order is the write order; every client reads every key.

func init() {
	props["C06"] = &propDef{gen: genC06, check: checkC06}
}

// genC06DoorkeeperLong: a sole writer pushes thousands of one-off keys through a doorkeeper
// cache (the per-shard filters fill up and are cleared), then offers a few fresh keys three
// times in a row each.
func genC06DoorkeeperLong(g *gen, tier string) *Scenario {
	sc := &Scenario{Sim: g.sim(), Params: map[string]int64{"dklong": 1, "pressure": 1}}
	sc.Family = "plain,doorkeeper-long"
	sc.Cache = g.cache("plain")
	sc.Cache.Doorkeeper = true
	sc.Cache.MaxSize = int64(pick(g, 4, 16, 64))
	sc.Cache.WriteChan, sc.Cache.WriteBuf = 64, 128
	sc.Sim.Drift = 1
	sc.Sim.AtomicAll = false
	sc.Sim.MaxSteps = 6000000
	fill := g.rng(5500, 9000)
	sc.Params["dkfill"] = int64(fill)
	ops := []Op{{Kind: "fill", Key: 2000, N: fill}}
	for j := 0; j < 4; j++ {
		k := 10 + j
		ops = append(ops, Op{Kind: "set", Key: k, Cost: 1}, Op{Kind: "set", Key: k, Cost: 1}, Op{Kind: "set", Key: k, Cost: 1}, Op{Kind: "get", Key: k})
		if g.pct(50) {
			ops = append(ops, Op{Kind: "fill", Key: 20000 + 1000*j, N: g.rng(1, 400)})
		}
	}
	sc.Clients = [][]Op{ops}
	sc.Epilogue = []Op{{Kind: "waitidle"}, {Kind: "wait"}, {Kind: "waitidle"}, {Kind: "snap", Label: "final"}}
	return sc
}

func genC06(g *gen, tier string) *Scenario {
	if g.pct(3) {
		return genC06DoorkeeperLong(g, tier)
	}
	sc := &Scenario{Sim: g.sim(), Params: map[string]int64{}}
	kind := pick(g, "plain", "plain", "loading")
	sc.Cache = g.cache(kind)
	sc.Cache.Doorkeeper = kind == "plain" && g.pct(25)
	sc.Cache.CostFn = g.pct(30)
	sc.Sim.Drift = pick(g, 1, 2, 3)
	sc.Sim.MaxSteps = 2000000
	if g.pct(25) {
		// recycled entries: a fresh entry must be governed by the new call only
		sc.Cache.Pool = true
		sc.Sim.PoolReuse = pick(g, 50, 90, 100)
	}
	pressure := g.pct(40)
	nc := g.rng(1, 3)
	perClient := g.rng(1, 3)
	nkeys := nc * perClient
	maxCost := int64(pick(g, 1, 2, 3))
	if sc.Cache.CostFn {
		maxCost = 3 // costOf returns 1..3
	}
	if pressure {
		sc.Family = kind + ",pressure"
		sc.Cache.MaxSize = int64(pick(g, 1, 2, 3, 4))
		if maxCost > sc.Cache.MaxSize {
			maxCost = sc.Cache.MaxSize
		}
	} else {
		sc.Family = kind + ",no-pressure"
		sc.Cache.MaxSize = int64(nkeys)*maxCost + int64(g.rng(0, 3))
	}
	sc.Params["pressure"] = 0
	if pressure {
		sc.Params["pressure"] = 1
	}
	stallTicker := g.pct(30)
	ttls := []int64{200 * ms, 1 * sec, 1500 * ms, 3 * sec, 20 * sec, 65 * sec}
	if kind == "loading" {
		sc.Stubs.LoaderOverPct = pick(g, 0, 30, 100)
		sc.Stubs.LoaderCostMax = maxCost
		sc.Stubs.LoaderTTLPct = pick(g, 0, 30)
		sc.Stubs.LoaderTTL = ttls[g.n(len(ttls))]
	}
	for c := 0; c < nc; c++ {
		var ops []Op
		var lastTTL int64
		for n := g.rng(4, 16); n > 0; n-- {
			own := c*perClient + g.n(perClient)
			x := g.n(100)
			switch {
			case x < 35:
				op := Op{Kind: "set", Key: own, Cost: int64(g.rng(1, int(maxCost)))}
				if sc.Cache.CostFn && g.pct(50) {
					op.Cost = 0
				}
				if g.pct(8) {
					op.Cost = sc.Cache.MaxSize + int64(g.rng(1, 2)) // oversize: must be refused
					if g.pct(50) {
						op.Cost = 2 * sc.Cache.MaxSize
					}
				}
				if g.pct(45) {
					op.TTL = ttls[g.n(len(ttls))]
					lastTTL = op.TTL
				}
				ops = append(ops, op)
			case x < 70:
				ops = append(ops, Op{Kind: "get", Key: g.n(nkeys)})
			case x < 78:
				ops = append(ops, Op{Kind: "del", Key: own})
			case x < 92:
				d := int64(g.rng(1, 2500)) * ms
				if lastTTL > 0 && g.pct(60) {
					// land before / inside the gap between deadline and reclamation / after it
					d = lastTTL + int64(g.rng(-1500, 2500))*ms
					if d < 0 {
						d = 0
					}
				}
				ops = append(ops, Op{Kind: "sleep", Dur: d})
			default:
				if stallTicker {
					ops = append(ops, Op{Kind: "stall", Site: "maintenance>func", Dur: int64(g.rng(2, 25)) * sec})
				} else {
					ops = append(ops, Op{Kind: "get", Key: g.n(nkeys)})
				}
			}
		}
		sc.Clients = append(sc.Clients, ops)
	}
	if pressure {
		// an extra client that only inserts other keys
		var ops []Op
		for n := g.rng(2, 12); n > 0; n-- {
			ops = append(ops, Op{Kind: "set", Key: 1000 + g.n(30), Cost: 1}, Op{Kind: "sleep", Dur: int64(g.rng(1, 800)) * ms})
		}
		sc.Clients = append(sc.Clients, ops)
	}
	sc.Epilogue = append([]Op{}, quiesce...)
	return sc
}

type c06state struct {
	present  bool
	val      int64
	desc     string
	retT     int64
	hasDl    bool  // carries a deadline
	lo, hi   int64 // deadline interval (simulated ns)
	prevDead bool  // created by a TTL-less write over an entry whose deadline had certainly passed
}

// c06ev is one write to a key: a Set, a Delete, or a loader's load-and-store.
type c06ev struct {
	kind       string // set del load
	inv, ret   uint64
	invT, retT int64
	ok         bool
	ttl        int64
	val        int64
	desc       string
}

func checkC06(rd *RunData) []Violation {
	if rd.Res.Verdict != "ok" {
		return nil
	}
	var vs []Violation
	cfg := rd.Sc.Cache
	pressure := rd.Sc.Params["pressure"] == 1
	regime := "no-pressure"
	if pressure {
		regime = "pressure"
	}
	cost := func(r Rec) int64 {
		if r.Op.Cost == 0 {
			return costOf(r.Val)
		}
		return r.Op.Cost
	}
	// does some key receive cost changes from two different tasks (the owner's
	// Sets and another client's load-and-store)? Their asynchronous cost deltas
	// can then be applied out of order (see C07's known finding).
	costWriters := map[int]map[int]int64{}
	noteWriter := func(key, task int, c int64) {
		if costWriters[key] == nil {
			costWriters[key] = map[int]int64{}
		}
		costWriters[key][task] = c
	}
	for _, r := range rd.Recs {
		if r.Op.Kind == "set" && r.Client >= 0 {
			noteWriter(r.Op.Key, rd.ClientTask[r.Client+1], cost(r))
		}
	}
	for _, l := range rd.Loader {
		noteWriter(l.Key, l.Task, l.Cost)
	}
	writersCls := "single-writer-costs"
	for _, m := range costWriters {
		if len(m) > 1 {
			writersCls = "concurrent-cost-updates"
		}
	}
	evicted := map[KV]uint64{}
	for _, l := range rd.Listener {
		if l.Reason == 1 {
			if _, ok := evicted[KV{l.Key, l.Val}]; !ok {
				evicted[KV{l.Key, l.Val}] = l.Seq
			}
			if !pressure {
				// a value whose deadline may have passed is already gone for its readers: which of
				// expiry and eviction reclaims the slot is not this property's business
				mayHaveExpired := false
				for _, r := range rd.Recs {
					if r.Op.Kind == "set" && r.Op.Key == l.Key && r.Op.TTL > 0 && r.Inv < l.Seq && r.InvT+r.Op.TTL <= l.T {
						mayHaveExpired = true
					}
				}
				for _, ld := range rd.Loader {
					if ld.Key == l.Key && ld.TTL > 0 && ld.Start < l.Seq && ld.StartT+ld.TTL <= l.T {
						mayHaveExpired = true
					}
				}
				if mayHaveExpired {
					probe("c06.eviction-of-possibly-expired-value")
					continue
				}
				// was some key re-created while a Delete of it had not returned yet? The old entry is
				// out of the map but still counted by the policy until its REMOVE event is applied.
				cls := writersCls
				for _, d := range rd.Recs {
					if d.Op.Kind != "del" || d.Inv > l.Seq {
						continue
					}
					for _, r := range rd.Recs {
						if r.Op.Kind == "set" && r.Ok && r.Op.Key == d.Op.Key && r.Inv > d.Inv && r.Inv < l.Seq && (d.Open || d.Ret > r.Inv) {
							cls = writersCls + ",recreated-during-delete"
						}
					}
					for _, ld := range rd.Loader {
						if ld.Key == d.Op.Key && ld.Start > d.Inv && ld.Start < l.Seq && (d.Open || d.Ret > ld.Start) {
							cls = writersCls + ",recreated-during-delete"
						}
					}
				}
				vs = append(vs, Violation{"C06/evicted-without-pressure/" + cls, fmt.Sprintf("key %d value %d was EVICTED although the total cost of all keys of the run never exceeds MaxSize %d", l.Key, l.Val, cfg.MaxSize)})
			}
		}
	}
	loaderVal := map[int64]LdRec{}
	for _, l := range rd.Loader {
		loaderVal[l.Val] = l
	}
	recs := sortedRecs(rd.Recs)
	// the Get call that ran a loader invocation (its return bounds the deadline computation)
	leaderRet := func(l LdRec) int64 {
		for _, g := range recs {
			if g.Op.Kind == "get" && g.Client >= 0 && rd.ClientTask[g.Client+1] == l.Task && g.Inv < l.Start && !g.Open && g.Ret > l.End {
				return g.RetT
			}
		}
		return math.MaxInt64 / 4
	}
	// write events per key, in the order they took effect
	byKey := map[int][]c06ev{}
	for _, r := range recs {
		if (r.Op.Kind == "set" || r.Op.Kind == "del") && r.Op.Key < 1000 {
			ev := c06ev{kind: r.Op.Kind, inv: r.Inv, ret: r.Ret, invT: r.InvT, retT: r.RetT, ok: r.Ok, ttl: r.Op.TTL, val: r.Val, desc: fmt.Sprintf("%s by client %d", r.Op, r.Client)}
			if r.Open {
				ev.ret = ^uint64(0)
			}
			byKey[r.Op.Key] = append(byKey[r.Op.Key], ev)
		}
	}
	for _, l := range rd.Loader {
		if l.Key >= 1000 || l.End == 0 {
			continue
		}
		ok := l.Outcome == "ok" && (l.Cost <= cfg.MaxSize && (l.Cost != 0 || costOf(l.Val) <= cfg.MaxSize))
		byKey[l.Key] = append(byKey[l.Key], c06ev{kind: "load", inv: l.Start, ret: l.End, invT: l.EndT, retT: leaderRet(l), ok: ok, ttl: l.TTL, val: l.Val, desc: fmt.Sprintf("loader %s (cost %d, ttl %s)", l.Token, l.Cost, durStr(l.TTL))})
	}
	// Set results (offers to the doorkeeper in effect order; an oversize Set never reaches it)
	offered := map[int]bool{}
	rejected := map[int64]Rec{}
	dkLong := rd.Sc.Params["dklong"] == 1
	refusals := map[int]int{}
	for _, r := range recs {
		if r.Op.Kind != "set" || r.Open {
			continue
		}
		c := cost(r)
		switch {
		case r.Ok && c > cfg.MaxSize:
			vs = append(vs, Violation{"C06/oversize-admitted/set", fmt.Sprintf("%s (cost %d > MaxSize %d) returned true", r.Op, c, cfg.MaxSize)})
		case !r.Ok:
			rejected[r.Val] = r
			if dkLong {
				// thousands of first sightings: the filter is cleared now and then, after which a key
				// counts as new again. Whatever the clearing schedule, a sole writer that offers one key
				// three times in a row (nothing else offered in between) is not "seeing it for the first
				// time" on the third offer.
				refusals[r.Op.Key]++
				if c <= cfg.MaxSize && refusals[r.Op.Key] >= 3 {
					vs = append(vs, Violation{"C06/set-refused-without-reason/doorkeeper,three-in-a-row", fmt.Sprintf("%s (cost %d <= MaxSize %d) returned false for the third time in a row (sole writer, no other Set in between, %d keys offered before)", r.Op, c, cfg.MaxSize, rd.Sc.Params["dkfill"])})
				}
			} else if c <= cfg.MaxSize && !(cfg.Doorkeeper && !offered[r.Op.Key]) {
				vs = append(vs, Violation{"C06/set-refused-without-reason/" + map[bool]string{true: "doorkeeper", false: "plain"}[cfg.Doorkeeper], fmt.Sprintf("%s (cost %d <= MaxSize %d, key offered before: %v) returned false", r.Op, c, cfg.MaxSize, offered[r.Op.Key])})
			}
		case dkLong:
			refusals[r.Op.Key] = 0
			probe("c06.doorkeeper-admitted-after-long-fill")
		}
		if c <= cfg.MaxSize {
			offered[r.Op.Key] = true
		}
	}
	type seg struct {
		st       c06state
		from, to uint64 // reads with Inv > from and Ret < to observe st
	}
	segs := map[int][]seg{}
	keys := make([]int, 0, len(byKey))
	for k := range byKey {
		keys = append(keys, k)
	}
	sort.Ints(keys)
	for _, k := range keys {
		ws := byKey[k]
		sort.Slice(ws, func(i, j int) bool { return ws[i].inv < ws[j].inv })
		var st c06state
		for i, w := range ws {
			if w.ret == ^uint64(0) {
				break
			}
			if i+1 < len(ws) && ws[i+1].inv < w.ret {
				// a load-and-store overlaps a Set/Delete of the key: their order is the
				// shard lock's, not decidable from the history - stop modelling this key
				probe("c06.key-order-ambiguous")
				break
			}
			switch {
			case w.kind == "del":
				st = c06state{}
			case w.ok:
				ns := c06state{present: true, val: w.val, desc: w.desc, retT: w.retT}
				if w.ttl > 0 {
					ns.hasDl, ns.lo, ns.hi = true, satAdd(w.invT, w.ttl), satAdd(w.retT, w.ttl)
				} else if st.present && !st.hasDl && st.prevDead {
					ns.prevDead = true // still the same slot whose stale deadline was never cleared
				} else if st.present && st.hasDl {
					if w.invT > st.hi {
						ns.prevDead = true // previous value had certainly expired: fresh entry, no deadline
					} else {
						ns.hasDl, ns.lo, ns.hi = true, st.lo, st.hi // keeps the earlier deadline (if it straddles possibly none: permissive)
					}
				}
				st = ns
			default:
				// refused: state unchanged
			}
			to := ^uint64(0)
			if i+1 < len(ws) {
				to = ws[i+1].inv
			}
			segs[k] = append(segs[k], seg{st, w.ret, to})
		}
	}
	// reads
	for _, r := range recs {
		if r.Op.Kind != "get" || r.Open || r.Op.Key >= 1000 || r.Panic != "" || r.Err != "" && !r.Ok {
			continue
		}
		if r.Ok {
			if w, bad := rejected[r.Val]; bad {
				vs = append(vs, Violation{"C06/rejected-set-visible", fmt.Sprintf("%s returned value %d which %s had refused to store (returned false)", r.Op, r.Val, w.Op)})
			}
			effCost := func(l LdRec) int64 {
				if l.Cost == 0 && cfg.CostFn {
					return costOf(l.Val) // the loader left the cost to the configured cost function
				}
				return l.Cost
			}
			if l, ok := loaderVal[r.Val]; ok && l.Outcome == "ok" && effCost(l) > cfg.MaxSize && r.Inv > l.End {
				// not one of the callers of that load: it read the value from the cache
				joined := false
				for _, g := range recs {
					if g.Op.Kind == "get" && g.Client >= 0 && rd.ClientTask[g.Client+1] == l.Task && g.Inv < l.Start && (g.Open || g.Ret > r.Inv) {
						joined = true // the leader's call was still in progress: may have joined its flight
					}
				}
				if !joined {
					vs = append(vs, Violation{"C06/oversize-admitted/loader", fmt.Sprintf("%s read value %d from the cache; the loader had returned it with cost %d > MaxSize %d, so it must not have been admitted", r.Op, r.Val, effCost(l), cfg.MaxSize)})
				}
			}
		}
		for _, sg := range segs[r.Op.Key] {
			if !(r.Inv > sg.from && r.Ret < sg.to) || !sg.st.present {
				continue
			}
			st := sg.st
			probe("c06.read-of-live-key")
			if r.Ok && r.Val == st.val {
				continue
			}
			// the expected value was not returned: the read missed (a loading Get then loads)
			if r.Ok {
				if _, isLoad := loaderVal[r.Val]; !isLoad {
					continue // another stored value: C01's business
				}
			}
			missT := r.RetT
			if st.hasDl && missT >= st.lo {
				continue // its deadline may have passed
			}
			if _, ok := evicted[KV{r.Op.Key, st.val}]; ok && pressure {
				continue // evicted under capacity pressure (the notification may trail the map removal)
			}
			cls := "live"
			if st.prevDead {
				cls = "expired-slot-no-ttl"
			} else if st.hasDl {
				cls = "before-deadline"
			}
			vs = append(vs, Violation{"C06/unreadable-after-set/" + cls + "," + regime, fmt.Sprintf("%s stored value %d (returned true at t<=%s); %s by client %d at t=[%s,%s] does not see it (got v=%d hit=%v) although nothing deleted or replaced it, its deadline (%v: [%s,%s]) cannot have passed and no eviction was reported", st.desc, st.val, durStr(st.retT), r.Op, r.Client, durStr(r.InvT), durStr(r.RetT), r.Val, r.Ok, st.hasDl, durStr(st.lo), durStr(st.hi))})
		}
	}
	// oversize entries are never resident once writes have drained
	if sn := rd.Snaps["final"]; sn != nil {
		for _, e := range sn.Resident {
			if e.Weight > cfg.MaxSize {
				src := "set"
				if _, ok := loaderVal[e.Value]; ok {
					src = "loader"
				}
				vs = append(vs, Violation{"C06/oversize-admitted/" + src + ",resident", fmt.Sprintf("after Wait: key %d value %d with cost %d > MaxSize %d is resident", e.Key, e.Value, e.Weight, cfg.MaxSize)})
			}
		}
	}
	return vs
}
