package main

import (
	"context"
	"errors"
	"fmt"
	"io"
	"runtime"
	"sync/atomic"
	"time"

	theine "github.com/Yiling-J/theine-go"
	"github.com/Yiling-J/theine-go/internal"
	"verifsim/simrt"
)

// cacheAPI is the public API of the four cache kinds behind one face.
type cacheAPI struct {
	kind      string
	get       func(k K) (V, bool, error)
	set       func(k K, v V, cost int64, ttl time.Duration) bool
	del       func(k K) error
	rng       func(f func(K, V) bool)
	length    func() int
	size      func() int
	stats     func() (uint64, uint64)
	wait      func()
	closeF    func()
	save      func(version uint64, w io.Writer) error
	load      func(version uint64, r io.Reader) error
	store     *internal.Store[K, V]
	secondary *simSecondary
}

const (
	valLoaderBit = int64(1) << 60
)

func costOf(v V) int64 { return 1 + (v>>8)%3 }

// ---------------- stubs ----------------

type simSecondary struct {
	rd      *RunData
	keys    []K
	vals    []secEntry
	reenter func(k K) // CacheCfg.Reenter: the error handler calls back into the cache
}

type secEntry struct {
	v      V
	cost   int64
	expire int64
}

//go:norace
func (s *simSecondary) find(k K) int {
	for i, x := range s.keys {
		if x == k {
			return i
		}
	}
	return -1
}

//go:norace
func (s *simSecondary) enter(op string) (fail bool) {
	simrt.Yield(simrt.KStub)
	st := &s.rd.Sc.Stubs
	r := simrt.MiscRng()
	if st.SecSlowPct > 0 && r.Intn(100) < st.SecSlowPct {
		simrt.Fault("secondary.slow")
		simrt.Sleep(st.SecSlowDur)
	}
	pct := 0
	switch op {
	case "get":
		pct = st.SecGetErrPct
	case "set":
		pct = st.SecSetErrPct
	case "del":
		pct = st.SecDelErrPct
	}
	if pct > 0 && r.Intn(100) < pct {
		simrt.Fault("secondary." + op + ".error")
		return true
	}
	return false
}

var errSecondary = errors.New("injected secondary-store failure")

// secSetError is what a failed secondary Set returns: it names the key, so that an error handler
// can act on it.
type secSetError struct{ key K }

func (e *secSetError) Error() string { return errSecondary.Error() }

//go:norace
func (s *simSecondary) Get(key K) (value V, cost int64, expire int64, ok bool, err error) {
	fail := s.enter("get")
	rec := SecRec{Seq: simrt.Stamp(), T: simrt.Now(), Op: "get", Key: key, Task: simrt.CurID()}
	if fail {
		rec.Err = true
		s.rd.Sec = append(s.rd.Sec, rec)
		return 0, 0, 0, false, errSecondary
	}
	if i := s.find(key); i >= 0 {
		e := s.vals[i]
		rec.Val, rec.Cost, rec.Expire, rec.Found = e.v, e.cost, e.expire, true
		s.rd.Sec = append(s.rd.Sec, rec)
		return e.v, e.cost, e.expire, true, nil
	}
	s.rd.Sec = append(s.rd.Sec, rec)
	return 0, 0, 0, false, nil
}

//go:norace
func (s *simSecondary) Set(key K, value V, cost int64, expire int64) error {
	fail := s.enter("set")
	rec := SecRec{Seq: simrt.Stamp(), T: simrt.Now(), Op: "set", Key: key, Val: value, Cost: cost, Expire: expire, Task: simrt.CurID()}
	if fail {
		rec.Err = true
		s.rd.Sec = append(s.rd.Sec, rec)
		return &secSetError{key}
	}
	if i := s.find(key); i >= 0 {
		s.vals[i] = secEntry{value, cost, expire}
	} else {
		s.keys = append(s.keys, key)
		s.vals = append(s.vals, secEntry{value, cost, expire})
	}
	s.rd.Sec = append(s.rd.Sec, rec)
	return nil
}

//go:norace
func (s *simSecondary) Delete(key K) error {
	fail := s.enter("del")
	rec := SecRec{Seq: simrt.Stamp(), T: simrt.Now(), Op: "del", Key: key, Task: simrt.CurID()}
	if fail {
		rec.Err = true
		s.rd.Sec = append(s.rd.Sec, rec)
		return errSecondary
	}
	if i := s.find(key); i >= 0 {
		rec.Found = true
		n := len(s.keys) - 1
		s.keys[i], s.vals[i] = s.keys[n], s.vals[n]
		s.keys, s.vals = s.keys[:n], s.vals[:n]
	}
	s.rd.Sec = append(s.rd.Sec, rec)
	return nil
}

//go:norace
func (s *simSecondary) HandleAsyncError(err error) {
	if err != nil {
		s.rd.AsyncErrs++
	}
	// an error handler may use the cache (purge or re-read the key that failed): it must not be
	// called with any lock of the cache held
	if e, ok := err.(*secSetError); ok && s.reenter != nil {
		simrt.Fault("secondary.handler-reenters-cache")
		s.reenter(e.key)
	}
}

type loaderPanic struct{ token string }

func (p loaderPanic) Error() string { return "injected loader panic " + p.token }

type loaderError struct{ token string }

func (e *loaderError) Error() string { return "injected loader error " + e.token }

// the stubs are methods (not closures): //go:norace does not extend to
// closures, and the harness's own bookkeeping must stay invisible to the
// race detector.
type loaderStub struct {
	rd *RunData
	n  int
}

func makeLoader(rd *RunData) func(ctx context.Context, key K) (theine.Loaded[V], error) {
	return (&loaderStub{rd: rd}).load
}

//go:norace
func (ls *loaderStub) load(ctx context.Context, key K) (theine.Loaded[V], error) {
	rd := ls.rd

	rd.LoaderN++ // unique across restarts (each cache gets its own stub)
	id := rd.LoaderN
	st := &rd.Sc.Stubs
	r := simrt.MiscRng()
	rec := LdRec{Key: key, Start: simrt.Stamp(), StartT: simrt.Now(), Task: simrt.CurID()}
	rec.Val = valLoaderBit | int64(key)<<32 | int64(id)<<8
	rec.Token = fmt.Sprintf("L%d", id)
	if !simrt.RaceEnabled && rd.Store != nil {
		if v, exp, ok := internal.PeekEntry(rd.Store, key); ok && (exp == 0 || exp > internal.ClockNowPeek(rd.Store)) {
			rec.Resident, rec.ResVal = true, v
		}
	}
	idx := len(rd.Loader)
	rd.Loader = append(rd.Loader, rec)
	simrt.Yield(simrt.KStub)
	if st.LoaderSlowPct > 0 && r.Intn(100) < st.LoaderSlowPct {
		simrt.Fault("loader.slow")
		simrt.Sleep(st.LoaderSlowDur)
	}
	x := r.Intn(100)
	outcome := "ok"
	switch {
	case x < st.LoaderErrPct:
		outcome = "err"
	case x < st.LoaderErrPct+st.LoaderPanicPct:
		outcome = "panic"
	case x < st.LoaderErrPct+st.LoaderPanicPct+st.LoaderExitPct:
		outcome = "exit"
	}
	cost := int64(1)
	if st.LoaderCostMax > 1 {
		cost = 1 + int64(r.Intn(int(st.LoaderCostMax)))
	}
	if st.LoaderOverPct > 0 && r.Intn(100) < st.LoaderOverPct {
		cost = rd.Sc.Cache.MaxSize + 1 + int64(r.Intn(3))
		simrt.Fault("loader.oversize")
	}
	if rd.Sc.Cache.CostFn && r.Intn(2) == 0 {
		cost = 0
	}
	var ttl int64
	if st.LoaderTTLPct > 0 && r.Intn(100) < st.LoaderTTLPct {
		ttl = st.LoaderTTL
	}
	simrt.Yield(simrt.KStub)
	rec = rd.Loader[idx]
	rec.End, rec.EndT, rec.Outcome, rec.Cost, rec.TTL = simrt.Stamp(), simrt.Now(), outcome, cost, ttl
	if !simrt.RaceEnabled && rd.Store != nil && !internal.FlightRegistered(rd.Store, key) {
		rec.Unreg = true
	}
	rd.Loader[idx] = rec
	switch outcome {
	case "err":
		simrt.Fault("loader.error")
		if id%2 == 0 {
			// the common shape `return Loaded{Value: v, Cost: c}, err`: the value that comes with an
			// error must never be stored or shown to anybody
			simrt.Fault("loader.error-with-value")
			return theine.Loaded[V]{Value: rec.Val, Cost: cost, TTL: time.Duration(ttl)}, &loaderError{rec.Token}
		}
		return theine.Loaded[V]{}, &loaderError{rec.Token}
	case "panic":
		simrt.Fault("loader.panic")
		panic(loaderPanic{rec.Token})
	case "exit":
		simrt.Fault("loader.goexit")
		runtime.Goexit()
	}
	return theine.Loaded[V]{Value: rec.Val, Cost: cost, TTL: time.Duration(ttl)}, nil
}

type listenerStub struct{ rd *RunData }

func makeListener(rd *RunData) func(k K, v V, reason theine.RemoveReason) {
	return (&listenerStub{rd}).call
}

//go:norace
func (l *listenerStub) call(k K, v V, reason theine.RemoveReason) {
	rd := l.rd
	rd.Listener = append(rd.Listener, LRec{Seq: simrt.Stamp(), T: simrt.Now(), Key: k, Val: v, Reason: int(reason), Task: simrt.CurID()})
	st := &rd.Sc.Stubs
	if st.ListenerSlowPct > 0 && simrt.MiscRng().Intn(100) < st.ListenerSlowPct {
		simrt.Fault("listener.slow")
		rd.Listener[len(rd.Listener)-1].Slow = st.ListenerSlowDur
		simrt.Sleep(st.ListenerSlowDur)
	} else {
		simrt.Yield(simrt.KStub)
	}
}

// ---------------- building the cache inside the simulation ----------------

func buildCache(rd *RunData) (*cacheAPI, error) {
	api, err := buildCacheCfg(rd, rd.Sc.Cache)
	if err == nil {
		rd.Store = api.store
	}
	return api, err
}

func buildCacheCfg(rd *RunData, c CacheCfg) (*cacheAPI, error) {
	internal.SetTuning(c.WriteChan, c.WriteBuf, c.Stripes)
	b := theine.NewBuilder[K, V](c.MaxSize)
	if c.Doorkeeper {
		b.Doorkeeper(true)
	}
	if c.Pool {
		b.UseEntryPool(true)
	}
	if c.Listener {
		b.RemovalListener(makeListener(rd))
	}
	if c.CostFn {
		b.Cost(costOf)
	}
	api := &cacheAPI{kind: c.Kind}
	bg := context.Background()
	switch c.Kind {
	case "plain":
		ch, err := b.Build()
		if err != nil {
			return nil, err
		}
		api.store = theine.VerifStore(ch)
		api.get = func(k K) (V, bool, error) { v, ok := ch.Get(k); return v, ok, nil }
		api.set = ch.SetWithTTL
		api.del = func(k K) error { ch.Delete(k); return nil }
		api.rng, api.length, api.size, api.wait, api.closeF = ch.Range, ch.Len, ch.EstimatedSize, ch.Wait, ch.Close
		api.stats = func() (uint64, uint64) { s := ch.Stats(); return s.Hits(), s.Misses() }
		api.save, api.load = ch.SaveCache, ch.LoadCache
	case "loading":
		ch, err := b.Loading(makeLoader(rd)).Build()
		if err != nil {
			return nil, err
		}
		api.store = theine.VerifLoadingStore(ch)
		api.get = func(k K) (V, bool, error) { v, err := ch.Get(bg, k); return v, err == nil, err }
		api.set = ch.SetWithTTL
		api.del = func(k K) error { ch.Delete(k); return nil }
		api.rng, api.length, api.size, api.wait, api.closeF = ch.Range, ch.Len, ch.EstimatedSize, ch.Wait, ch.Close
		api.stats = func() (uint64, uint64) { s := ch.Stats(); return s.Hits(), s.Misses() }
		api.save, api.load = ch.SaveCache, ch.LoadCache
	case "hybrid":
		sec := &simSecondary{rd: rd}
		ch, err := b.Hybrid(sec).Workers(c.Workers).AdmProbability(c.Prob).Build()
		if err != nil {
			return nil, err
		}
		api.secondary = sec
		if c.Reenter {
			sec.reenter = func(k K) { _, _, _ = ch.Get(k) }
		}
		api.store = theine.VerifHybridStore(ch)
		api.get = ch.Get
		api.set = ch.SetWithTTL
		api.del = ch.Delete
		api.closeF = ch.Close
		api.save, api.load = ch.SaveCache, ch.LoadCache
	case "hybridloading":
		sec := &simSecondary{rd: rd}
		ch, err := b.Hybrid(sec).Workers(c.Workers).AdmProbability(c.Prob).Loading(makeLoader(rd)).Build()
		if err != nil {
			return nil, err
		}
		api.secondary = sec
		if c.Reenter {
			sec.reenter = func(k K) { _ = ch.Delete(k) }
		}
		api.store = theine.VerifHybridLoadingStore(ch)
		api.get = func(k K) (V, bool, error) { v, err := ch.Get(bg, k); return v, err == nil, err }
		api.set = ch.SetWithTTL
		api.del = ch.Delete
		api.closeF = ch.Close
		api.save, api.load = ch.SaveCache, ch.LoadCache
	default:
		return nil, fmt.Errorf("unknown cache kind %q", c.Kind)
	}
	// Wait is a Store method even where the wrapper type does not expose it
	if api.wait == nil {
		api.wait = api.store.Wait
	}
	if api.length == nil {
		api.length = api.store.Len
	}
	if api.size == nil {
		api.size = api.store.EstimatedSize
	}
	return api, nil
}

// ---------------- executing a scenario ----------------

type simEnv struct {
	rd   *RunData
	api  *cacheAPI
	disk *simDisk
	// hooks a property driver may install
	afterOp   func(client int, r *Rec)
	customOp  func(op Op, rec *Rec) // ops whose kind starts with "x"
	peekStale bool                  // record how stale the cached clock was at invoke/return of every call
	onRestart []func()              // re-install white-box monitors on the new store
	pub       atomic.Pointer[cacheAPI]
	standby   *cacheAPI // Params["standby"]: an idle cache built that many ns before the main one; the first restart loads into it
}

func valueFor(client, idx int) V { return int64(client+1)<<40 | int64(idx+1)<<8 }

//go:norace
func (env *simEnv) exec(client, idx int, op Op) (rec Rec) {
	rd, api := env.rd, env.api
	if p := env.pub.Load(); p != nil {
		// a restart published a new cache: the atomic load is the synchronisation a real program
		// needs between the goroutine that called LoadCache and the users of the new cache
		api = p
	}
	rec = Rec{Client: client, Idx: idx, Op: op, Open: true}
	simrt.SetLabel(op.String())
	rec.Inv, rec.InvT = simrt.Stamp(), simrt.Now()
	if env.peekStale && !simrt.RaceEnabled {
		rec.Stale = internal.ClockStaleness(rd.Store)
	}
	rd.InFlight[client+1] = &rec
	finished := false
	defer func() {
		if finished {
			return
		}
		// panic or Goexit travelling through the client
		r := recover()
		rd.InFlight[client+1] = nil
		rec.Open = false
		rec.Ret, rec.RetT = simrt.Stamp(), simrt.Now()
		if r != nil {
			rec.Panic = fmt.Sprint(r)
		} else {
			rec.Exit = true
			rd.addRec(rec)
			simrt.SetLabel("")
			// Goexit continues unwinding; the task ends here
		}
	}()
	switch op.Kind {
	case "set":
		rec.Val = valueFor(client, idx)
		rec.Ok = api.set(op.Key, rec.Val, op.Cost, time.Duration(op.TTL))
	case "get":
		v, ok, err := api.get(op.Key)
		rec.Val, rec.Ok = v, ok
		if err != nil {
			rec.Err = err.Error()
		}
	case "del":
		if err := api.del(op.Key); err != nil {
			rec.Err = err.Error()
		}
	case "range":
		n := 0
		api.rng(func(k K, v V) bool {
			rec.Pairs = append(rec.Pairs, KV{k, v})
			n++
			return op.N == 0 || n < op.N
		})
		rec.N = n
	case "wait":
		api.wait()
	case "len":
		rec.N = api.length()
	case "size":
		rec.N = api.size()
	case "stats":
		h, m := api.stats()
		rec.N, rec.N2 = int(h), m
	case "close":
		api.closeF()
	case "fill":
		// N distinct unit-cost keys starting at Key (bulk fill; one history record)
		for i := 0; i < op.N; i++ {
			api.set(op.Key+i, int64(op.Key+i)<<8|5, 1, 0)
		}
		rec.N = op.N
	case "delrange":
		for i := 0; i < op.N; i++ {
			api.del(op.Key + i)
		}
		rec.N = op.N
	case "heat":
		// Cost rounds of reads over the N keys starting at Key (one history record)
		n := 0
		for round := int64(0); round < op.Cost; round++ {
			for i := 0; i < op.N; i++ {
				if _, ok, _ := api.get(op.Key + i); ok {
					n++
				}
			}
		}
		rec.N = n
	case "sleep":
		simrt.Sleep(op.Dur)
	case "advance":
		simrt.Fault("clock.jump")
		simrt.AdvanceTime(op.Dur)
		simrt.Yield(simrt.KOther)
	case "stall":
		n := 0
		for _, t := range simrt.FindTasks(func(t *simrt.Task) bool { return !t.Harness && contains(t.Name, op.Site) && !simrt.Done(t) }) {
			simrt.StallTask(t, op.Dur)
			n++
		}
		if n > 0 {
			simrt.Fault("stall." + op.Site)
		}
		rec.N = n
	case "waitidle":
		simrt.WaitQuiescent()
	case "snap":
		env.snap(op.Label)
	case "save":
		env.disk = newSimDisk()
		w := env.disk.writer(op.N)
		if err := api.save(uint64(op.Key), w); err != nil {
			rec.Err = err.Error()
		}
	case "restart":
		env.restart(op, &rec)
	case "load":
		if env.disk == nil {
			env.disk = newSimDisk()
		}
		if err := api.load(uint64(op.Key), env.disk.reader(op.N)); err != nil {
			rec.Err = err.Error()
		}
	default:
		if len(op.Kind) > 0 && op.Kind[0] == 'x' && env.customOp != nil {
			env.customOp(op, &rec)
			break
		}
		panic("unknown op " + op.Kind)
	}
	finished = true
	if env.peekStale && !simrt.RaceEnabled {
		if st := internal.ClockStaleness(rd.Store); st > rec.Stale {
			rec.Stale = st
		}
	}
	rd.InFlight[client+1] = nil
	rec.Open = false
	rec.Ret, rec.RetT = simrt.Stamp(), simrt.Now()
	simrt.SetLabel("")
	return rec
}

// restart: Wait -> SaveCache -> Close -> downtime (op.Dur) -> a new cache of the same configuration ->
// LoadCache through reads of op.N bytes. op.Cost in 1..99: the process "crashed" while saving and
// only that percentage of the stream is on disk (LoadCache then fails; whatever it had restored
// before the error stays). Later calls of every client go to the new cache; calls in flight
// finish on the old, closed one. The listener, loader and secondary stubs carry over.
//
//go:norace
func (env *simEnv) restart(op Op, rec *Rec) {
	rd, old := env.rd, env.api
	disk := newSimDisk()
	begin := simrt.Stamp()
	// a graceful restart: pending writes are drained first (the round trip is stated for a quiescent
	// cache; Persist walks the policy lists, so a Delete whose event is still queued would be saved)
	old.wait()
	if err := old.save(uint64(op.Key), disk.writer(0)); err != nil {
		rec.Err = "save: " + err.Error()
	}
	rs := RestartRec{BeginSeq: begin, SaveSeq: simrt.Stamp(), SaveT: simrt.Now()}
	old.closeF()
	if op.Cost > 0 && op.Cost < 100 {
		simrt.Fault("restart.torn-stream")
		disk.data = disk.data[:int64(len(disk.data))*op.Cost/100]
		rs.Torn = true
	}
	if op.Dur > 0 {
		simrt.Sleep(op.Dur)
	}
	var api *cacheAPI
	var err error
	if env.standby != nil {
		// the stream is loaded into a cache that was built BEFORE the saving one and has been
		// idle since: LoadCache moves its clock origin forward, i.e. its clock steps back
		api, env.standby = env.standby, nil
		simrt.Fault("restart.into-older-standby")
	} else {
		api, err = buildCacheCfg(rd, rd.Sc.Cache)
	}
	if err != nil {
		rd.violate("harness/build", err.Error())
		return
	}
	if old.secondary != nil && api.secondary != nil {
		api.secondary.keys, api.secondary.vals = old.secondary.keys, old.secondary.vals
	}
	rs.LoadSeq, rs.LoadT = simrt.Stamp(), simrt.Now()
	if err := api.load(uint64(op.Key), disk.reader(op.N)); err != nil {
		rec.Err += "load: " + err.Error()
		rs.LoadErr = true
	}
	rd.Store = api.store
	env.api = api
	env.pub.Store(api)
	rs.DoneSeq, rs.DoneT = simrt.Stamp(), simrt.Now()
	if !simrt.RaceEnabled {
		rs.Restored = internal.Snapshot(rd.Store)
	}
	rd.Restarts = append(rd.Restarts, rs)
	simrt.Fault("restart")
	for _, f := range env.onRestart {
		f()
	}
}

func contains(s, sub string) bool {
	for i := 0; i+len(sub) <= len(s); i++ {
		if s[i:i+len(sub)] == sub {
			return true
		}
	}
	return false
}

//go:norace
func (env *simEnv) snap(label string) {
	if simrt.RaceEnabled || env.rd.Store == nil {
		return
	}
	env.rd.Snaps[label] = internal.Snapshot(env.rd.Store)
	env.rd.SnapAt[label] = simrt.Stamp()
}

//go:norace
func (env *simEnv) runClient(client int, ops []Op) {
	env.rd.ClientTask[client+1] = simrt.CurID()
	for idx, op := range ops {
		rec := env.exec(client, idx, op)
		if rec.Panic != "" || !rec.Exit {
			if env.afterOp != nil {
				env.afterOp(client, &rec)
			}
			env.rd.addRec(rec)
		}
	}
}

// runners are the component simulators (real TimerWheel / Buffer / stream
// codec alone under the kernel), keyed by Scenario.Runner.
var runners = map[string]func(sc *Scenario) *RunData{}

func simConfig(sc *Scenario) simrt.Config {
	af := map[string]bool{}
	for _, f := range sc.Sim.AtomicFiles {
		af[f] = true
	}
	return simrt.Config{
		Seed: sc.Seed, MaxSteps: sc.Sim.MaxSteps, Sched: sc.Sim.Sched, SwitchPct: sc.Sim.SwitchPct,
		PCTDepth: sc.Sim.PCTDepth, Drift: sc.Sim.Drift, AtomicAll: sc.Sim.AtomicAll, AtomicFiles: af,
		Parallelism: sc.Cache.Parallelism, ShuffleMaps: sc.Sim.ShuffleMaps, PoolReuse: sc.Sim.PoolReuse,
		PoolDrop: sc.Sim.PoolDrop, TraceRing: 0, StartNanos: sc.Sim.StartNanos,
		Record: recordChoices || sc.UseChoices, Replay: sc.Choices, UseReplay: sc.UseChoices,
	}
}

var recordChoices bool

// runScenario executes sc under the kernel and returns everything observed.
func runScenario(sc *Scenario, setup func(env *simEnv)) *RunData {
	if r := runners[sc.Runner]; r != nil {
		return r(sc)
	}
	rd := &RunData{Sc: sc, Snaps: map[string]*Snap{}, SnapAt: map[string]uint64{}, InFlight: make([]*Rec, len(sc.Clients)+1), ClientTask: make([]int, len(sc.Clients)+1)}
	cfg := simConfig(sc)
	rd.Res = simrt.Run(cfg, func() {
		var standby *cacheAPI
		if age := sc.Params["standby"]; age > 0 {
			sb, err := buildCacheCfg(rd, sc.Cache)
			if err != nil {
				rd.violate("harness/build", err.Error())
				return
			}
			standby = sb
			simrt.Sleep(age)
		}
		api, err := buildCache(rd)
		if err != nil {
			rd.violate("harness/build", err.Error())
			return
		}
		rd.Clock0 = simrt.Now()
		env := &simEnv{rd: rd, api: api, standby: standby}
		if debugPolicy && !simrt.RaceEnabled {
			last := ""
			simrt.OnRelease(internal.PolicyMuKey(rd.Store), func() {
				sn := internal.Snapshot(rd.Store)
				d := dumpRegions(sn) + " resident:"
				for _, e := range sn.Resident {
					d += fmt.Sprintf(" k%d:v=%d,w=%d,pw=%d,exp=%d,fl=%#x", e.Key, e.Value, e.Weight, e.PolicyWeight, e.Expire, e.Flags)
				}
				if d != last {
					last = d
					rd.Debug = append(rd.Debug, DebugLine{simrt.Stamp(), fmt.Sprintf("    [policy step by task %d] %s", simrt.CurID(), d)})
				}
			})
		}
		if setup != nil {
			setup(env)
		}
		var ts []*simrt.Task
		for c, ops := range sc.Clients {
			c, ops := c, ops
			ts = append(ts, simrt.GoH(fmt.Sprintf("client%d", c), func() { env.runClient(c, ops) }))
		}
		for _, t := range ts {
			simrt.Join(t)
		}
		env.runClient(-1, sc.Epilogue)
	})
	// calls that never returned
	for _, r := range rd.InFlight {
		if r != nil {
			rd.Recs = append(rd.Recs, *r)
		}
	}
	return rd
}
