package theine

import "github.com/Yiling-J/theine-go/internal"

// Accessors for the simulation harness (scratch copy only).

func VerifStore[K comparable, V any](c *Cache[K, V]) *internal.Store[K, V] { return c.store }
func VerifLoadingStore[K comparable, V any](c *LoadingCache[K, V]) *internal.Store[K, V] {
	return internal.LoadingInner(c.store)
}
func VerifHybridStore[K comparable, V any](c *HybridCache[K, V]) *internal.Store[K, V] {
	return c.store
}
func VerifHybridLoadingStore[K comparable, V any](c *HybridLoadingCache[K, V]) *internal.Store[K, V] {
	return internal.LoadingInner(c.store)
}
