package internal

// White-box access for the simulation harness. This file is written against
// the REWRITTEN tree (sync/atomic/time are the shim packages) and is copied
// into the scratch module only; it never exists in /repo. All functions are
// //go:norace, take no locks and contain no scheduling points: the caller is
// the only running task.

import (
	"fmt"
	"unsafe"

	"github.com/Yiling-J/theine-go/internal/hasher"
	simrt "verifsim/simrt"
)

type WBEntry[K comparable, V any] struct {
	Key          K
	Value        V
	Weight       int64
	PolicyWeight int64
	Expire       int64
	Flags        int8
	InPolicy     bool
	InWheel      bool
	Region       string // window | probation | protected | "" (by flag)
	Ptr          unsafe.Pointer
}

type WBRegion[K comparable, V any] struct {
	Name     string
	Entries  []WBEntry[K, V]
	Len      int64
	Count    int
	Capacity uint
	RingErr  string
}

type WBWheel[K comparable] struct {
	Level, Slot int
	Key         K
	Expire      int64
	Ptr         unsafe.Pointer
}

type WBStripe struct {
	Head, Tail uint64
	TokenFree  bool
}

type WBSnapshot[K comparable, V any] struct {
	Resident     []WBEntry[K, V] // all map slots, shard by shard, keys sorted
	Regions      [3]WBRegion[K, V]
	WeightedSize uint
	Capacity     uint
	SlruMax      uint
	Wheel        []WBWheel[K]
	WheelNanos   int64
	WheelErr     string
	Stripes      []WBStripe
	ClockCached  int64
	ClockStart   int64
	Closed       bool
	ShardsClosed int
	WriteChanLen int
	WriteBufLen  int
	SecBufLen    int
	HitsInSample uint64
	MissInSample uint64
	Amount       int
	Step         float32
}

//go:norace
func wbEntry[K comparable, V any](e *Entry[K, V]) WBEntry[K, V] {
	r := ""
	switch {
	case e.flag.IsWindow():
		r = "window"
	case e.flag.IsProbation():
		r = "probation"
	case e.flag.IsProtected():
		r = "protected"
	}
	return WBEntry[K, V]{
		Key: e.key, Value: e.value, Weight: e.weight.SimPeek(), PolicyWeight: e.policyWeight,
		Expire: e.expire.SimPeek(), Flags: e.flag.Flags, InPolicy: e.meta.prev != nil,
		InWheel: e.meta.wheelPrev != nil, Region: r, Ptr: unsafe.Pointer(e),
	}
}

//go:norace
func wbRegion[K comparable, V any](name string, l *List[K, V], limit int) WBRegion[K, V] {
	r := WBRegion[K, V]{Name: name, Len: l.len, Count: l.count, Capacity: l.capacity}
	// forward walk
	n := 0
	var fwd []*Entry[K, V]
	for e := l.root.meta.next; e != &l.root; e = e.meta.next {
		if e == nil {
			r.RingErr = "nil next pointer in " + name
			return r
		}
		fwd = append(fwd, e)
		n++
		if n > limit {
			r.RingErr = "forward walk of " + name + " does not terminate"
			return r
		}
	}
	// backward walk must be the reverse
	i := len(fwd) - 1
	for e := l.root.meta.prev; e != &l.root; e = e.meta.prev {
		if e == nil || i < 0 || fwd[i] != e {
			r.RingErr = "backward walk of " + name + " disagrees with forward walk"
			return r
		}
		i--
	}
	if i != -1 {
		r.RingErr = "backward walk of " + name + " is shorter than forward walk"
		return r
	}
	for _, e := range fwd {
		r.Entries = append(r.Entries, wbEntry(e))
	}
	return r
}

// Snapshot returns the complete observable-by-whitebox state of the store.
//
//go:norace
func Snapshot[K comparable, V any](s *Store[K, V]) *WBSnapshot[K, V] {
	sn := &WBSnapshot[K, V]{}
	total := 0
	for _, sh := range s.shards {
		if sh.closed {
			sn.ShardsClosed++
		}
		for _, k := range simrt.SortedKeys(sh.hashmap) {
			sn.Resident = append(sn.Resident, wbEntry(sh.hashmap[k]))
		}
		total += len(sh.hashmap)
	}
	limit := total + 1000
	p := s.policy
	sn.Regions[0] = wbRegion("window", p.window, limit)
	sn.Regions[1] = wbRegion("probation", p.slru.probation, limit)
	sn.Regions[2] = wbRegion("protected", p.slru.protected, limit)
	sn.WeightedSize = p.weightedSize
	sn.Capacity = p.capacity
	sn.SlruMax = p.slru.maxsize
	sn.HitsInSample = p.hitsInSample
	sn.MissInSample = p.missesInSample
	sn.Amount = p.amount
	sn.Step = p.step
	tw := s.timerwheel
	sn.WheelNanos = tw.nanos
	for lv := range tw.wheel {
		for sl, l := range tw.wheel[lv] {
			n := 0
			for e := l.root.meta.wheelNext; e != &l.root; e = e.meta.wheelNext {
				if e == nil {
					sn.WheelErr = fmt.Sprintf("nil wheelNext in level %d slot %d", lv, sl)
					break
				}
				sn.Wheel = append(sn.Wheel, WBWheel[K]{Level: lv, Slot: sl, Key: e.key, Expire: e.expire.SimPeek(), Ptr: unsafe.Pointer(e)})
				n++
				if n > limit {
					sn.WheelErr = fmt.Sprintf("wheel list level %d slot %d does not terminate", lv, sl)
					break
				}
			}
		}
	}
	for _, b := range s.stripedBuffer {
		sn.Stripes = append(sn.Stripes, WBStripe{Head: b.head.SimPeek(), Tail: b.tail.SimPeek(), TokenFree: b.returned != nil})
	}
	sn.ClockCached = tw.clock.NowNanoCachedPeek()
	sn.ClockStart = tw.clock.Start.UnixNano()
	sn.Closed = s.closed
	sn.WriteChanLen = len(s.writeChan)
	sn.WriteBufLen = len(s.writeBuffer)
	if s.secondaryCacheBuf != nil {
		sn.SecBufLen = len(s.secondaryCacheBuf)
	}
	return sn
}

// PolicyMuKey is the object the kernel reports when the policy mutex is released.
//
//go:norace
func PolicyMuKey[K comparable, V any](s *Store[K, V]) any { return &s.policyMu }

// SketchEstimate returns the sketch's frequency estimate for key.
//
//go:norace
func SketchEstimate[K comparable, V any](s *Store[K, V], key K) uint {
	return s.policy.sketch.Estimate(s.hasher.Hash(key))
}

// SketchCounters returns, for key, the four frequency counters it maps to (as table positions)
// and their current values. Two keys that share a position share that counter.
//
//go:norace
func SketchCounters[K comparable, V any](s *Store[K, V], key K) (pos [4]uint32, val [4]uint) {
	sk := s.policy.sketch
	h := s.hasher.Hash(key)
	block := (h & uint64(sk.BlockMask)) << 3
	hc := rehash(h)
	for i := uint8(0); i < 4; i++ {
		idx, off := sk.indexOf(hc, block, i)
		pos[i] = uint32(idx)*16 + uint32(off)
		val[i] = uint(sk.Table[idx]>>(off<<2)) & 0xf
	}
	return
}

// FlightRegistered reports whether the loading singleflight group of key's shard has a call
// registered for key (white-box witness for C13: a running load must stay joinable).
//
//go:norace
func FlightRegistered[K comparable, V any](s *Store[K, V], key K) bool {
	_, i := s.index(key)
	shard := s.shards[i]
	if shard.group == nil || shard.group.m == nil {
		return false
	}
	_, ok := shard.group.m[key]
	return ok
}

//go:norace
func ShardIndex[K comparable, V any](s *Store[K, V], key K) int {
	_, i := s.index(key)
	return i
}

//go:norace
func ShardCountOf[K comparable, V any](s *Store[K, V]) int { return len(s.shards) }

// SetTuning sets the package-level queue sizes for the next NewStore call.
//
//go:norace
func SetTuning(writeChan, writeBuf, stripes int) {
	WriteChanSize = writeChan
	WriteBufferSize = writeBuf
	StripedBufferSize = stripes
}

//go:norace
func LoadingInner[K comparable, V any](s *LoadingStore[K, V]) *Store[K, V] { return s.Store }

// ---------------- component drivers ----------------

// WBWheelSim drives the real TimerWheel alone (C04).
type WBWheelSim struct {
	tw      *TimerWheel[int, int64]
	entries map[int]*Entry[int, int64]
}

//go:norace
func NewWBWheelSim(start int64) *WBWheelSim {
	tw := NewTimerWheel[int, int64](1000)
	tw.nanos = start
	return &WBWheelSim{tw: tw, entries: map[int]*Entry[int, int64]{}}
}

// Schedule files key under deadline expire (re-files it if already scheduled).
//
//go:norace
func (w *WBWheelSim) Schedule(key int, expire int64) {
	e := w.entries[key]
	if e == nil {
		e = &Entry[int, int64]{key: key}
		w.entries[key] = e
	}
	e.expire.Store(expire)
	w.tw.schedule(e)
}

//go:norace
func (w *WBWheelSim) Deschedule(key int) {
	if e := w.entries[key]; e != nil && e.meta.wheelPrev != nil {
		w.tw.deschedule(e)
	}
	delete(w.entries, key)
}

// Advance calls the real advance(now) and returns the keys handed to the
// removal callback, in order, with the deadline each carried at that moment.
//
//go:norace
func (w *WBWheelSim) Advance(now int64) (keys []int, deadlines []int64) {
	w.tw.advance(now, func(e *Entry[int, int64], reason RemoveReason) {
		keys = append(keys, e.key)
		deadlines = append(deadlines, e.expire.SimPeek())
		if reason != EXPIRED {
			keys = append(keys, -1000000-int(reason))
			deadlines = append(deadlines, 0)
		}
	})
	return
}

// Contents walks every slot: (key, deadline, level, slot) of every filed entry.
//
//go:norace
func (w *WBWheelSim) Contents() (out []WBWheel[int], err string) {
	tw := w.tw
	for lv := range tw.wheel {
		for sl, l := range tw.wheel[lv] {
			n := 0
			for e := l.root.meta.wheelNext; e != &l.root; e = e.meta.wheelNext {
				if e == nil {
					return out, fmt.Sprintf("nil wheelNext in level %d slot %d", lv, sl)
				}
				if e.meta.wheelNext == nil || e.meta.wheelNext.meta.wheelPrev != e {
					return out, fmt.Sprintf("broken back link at level %d slot %d key %v", lv, sl, e.key)
				}
				out = append(out, WBWheel[int]{Level: lv, Slot: sl, Key: e.key, Expire: e.expire.SimPeek(), Ptr: unsafe.Pointer(e)})
				n++
				if n > len(w.entries)+10 {
					return out, fmt.Sprintf("wheel list level %d slot %d does not terminate", lv, sl)
				}
			}
		}
	}
	return out, ""
}

//go:norace
func (w *WBWheelSim) Nanos() int64 { return w.tw.nanos }

//go:norace
func (w *WBWheelSim) Filed(key int) bool {
	e := w.entries[key]
	return e != nil && e.meta.wheelPrev != nil
}

// WBBufferSim drives one real lossy read buffer (C08). Items are numbered by
// their hash field.
type WBBufferSim struct {
	b *Buffer[int, int64]
}

func NewWBBufferSim() *WBBufferSim { return &WBBufferSim{b: NewBuffer[int, int64]()} }

// Add adds item id; if the caller obtained a batch, its ids are returned and
// got is true (the caller now holds the token and must call Free).
func (s *WBBufferSim) Add(id uint64) (batch []uint64, got bool) {
	pb := s.b.Add(ReadBufItem[int, int64]{hash: id})
	if pb == nil {
		return nil, false
	}
	for _, it := range pb.Returned {
		batch = append(batch, it.hash)
	}
	return batch, true
}

func (s *WBBufferSim) Free() { s.b.Free() }

//go:norace
func (s *WBBufferSim) State() (head, tail uint64, tokenFree bool) {
	return s.b.head.SimPeek(), s.b.tail.SimPeek(), s.b.returned != nil
}

// ClockStaleness returns precise clock minus cached clock (ns), without
// scheduling points.
//
//go:norace
func ClockStaleness[K comparable, V any](s *Store[K, V]) int64 {
	c := s.timerwheel.clock
	return simrt.Now() - (c.Start.UnixNano() - simEpoch) - c.NowNanoCachedPeek()
}

const simEpoch = int64(1735689600) * 1e9

// WBPolicySim drives the real TinyLfu policy alone (C07): every step of the
// property's quantifier - insert, access, cost update, remove, forced sample
// counts, arbitrary sketch contents - on any capacity.
type WBPolicySim struct {
	p       *TinyLfu[int, int64]
	h       *hasher.Hasher[int]
	entries map[int]*Entry[int, int64]
	Evicted []int // keys handed to the removal callback, in order
}

//go:norace
func NewWBPolicySim(capacity uint) *WBPolicySim {
	h := hasher.NewHasher[int](nil)
	s := &WBPolicySim{p: NewTinyLfu[int, int64](capacity, h), h: h, entries: map[int]*Entry[int, int64]{}}
	s.p.removeCallback = func(e *Entry[int, int64]) {
		// what Store.removeEntry does on the policy side
		e.flag.SetRemoved(true)
		if e.meta.prev != nil {
			s.p.Remove(e, false)
		}
		s.Evicted = append(s.Evicted, e.key)
		delete(s.entries, e.key)
	}
	return s
}

// Set inserts key with the given cost (as sinkWrite does for a NEW event) or, if
// the key is tracked, changes its cost (UPDATE event).
//
//go:norace
func (s *WBPolicySim) Set(key int, cost int64) {
	if e, ok := s.entries[key]; ok {
		delta := cost - e.policyWeight
		e.weight.Store(cost)
		e.policyWeight += delta
		if e.meta.prev != nil && delta != 0 {
			s.p.UpdateCost(e, delta)
		}
		return
	}
	e := &Entry[int, int64]{key: key}
	e.weight.Store(cost)
	s.entries[key] = e
	s.p.sketch.Add(s.h.Hash(key))
	e.policyWeight += cost
	s.p.Set(e)
}

//go:norace
func (s *WBPolicySim) Access(key int) {
	e := s.entries[key]
	if e == nil {
		return
	}
	s.p.Access(ReadBufItem[int, int64]{entry: e, hash: s.h.Hash(key)})
}

//go:norace
func (s *WBPolicySim) Remove(key int) {
	e := s.entries[key]
	if e == nil {
		return
	}
	if e.meta.prev != nil {
		s.p.Remove(e, false)
	}
	delete(s.entries, key)
}

// ForceSample sets the hill climber's sample counters (arbitrary hit/miss sample counts).
//
//go:norace
func (s *WBPolicySim) ForceSample(hits, misses uint64) {
	s.p.hitsInSample, s.p.missesInSample = hits, misses
}

// AddFrequency adds n to the sketch counters of key (arbitrary sketch contents).
//
//go:norace
func (s *WBPolicySim) AddFrequency(key int, n int) { s.p.sketch.Addn(s.h.Hash(key), n) }

//go:norace
func (s *WBPolicySim) SampleSize() uint { return s.p.sketch.SampleSize }

// Snapshot returns the policy part of a store snapshot (regions, totals) with
// Resident = the tracked entries.
//
//go:norace
func (s *WBPolicySim) Snapshot() *WBSnapshot[int, int64] {
	sn := &WBSnapshot[int, int64]{}
	for _, k := range simrt.SortedKeys(s.entries) {
		sn.Resident = append(sn.Resident, wbEntry(s.entries[k]))
	}
	limit := len(s.entries) + 1000
	sn.Regions[0] = wbRegion("window", s.p.window, limit)
	sn.Regions[1] = wbRegion("probation", s.p.slru.probation, limit)
	sn.Regions[2] = wbRegion("protected", s.p.slru.protected, limit)
	sn.WeightedSize = s.p.weightedSize
	sn.Capacity = s.p.capacity
	sn.SlruMax = s.p.slru.maxsize
	sn.HitsInSample = s.p.hitsInSample
	sn.MissInSample = s.p.missesInSample
	sn.Amount = s.p.amount
	sn.Step = s.p.step
	return sn
}

// PeekEntry looks a key up in its shard's map without locks or scheduling
// points (the caller is the only running task): value, deadline, present.
//
//go:norace
func PeekEntry[K comparable, V any](s *Store[K, V], key K) (v V, expire int64, ok bool) {
	_, i := s.index(key)
	e, ok := s.shards[i].hashmap[key]
	if !ok {
		return v, 0, false
	}
	return e.value, e.expire.SimPeek(), true
}

// ClockNowPeek is the store clock's precise time without a scheduling point.
//
//go:norace
func ClockNowPeek[K comparable, V any](s *Store[K, V]) int64 {
	return simrt.Now() - (s.timerwheel.clock.Start.UnixNano() - simEpoch)
}
