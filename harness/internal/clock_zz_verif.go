package clock

// NowNanoCachedPeek reads the cached clock without a scheduling point.
//
//go:norace
func (c *Clock) NowNanoCachedPeek() int64 { return c.now.SimPeek() }
